"""Shared specification vocabulary for tables.c / trees.c contracts (DESIGN.md section 6)."""
import z3
from vf.cvc import (Dbl, d_isfinite, d_lt, d_le, d_gt, d_ge, d_eq, d_ne, d_const, d_isnan, d_isunknown, Ptr)

i, j, k = z3.Ints("i j k")
MAX_ROWS = (1 << 31) - 1    # TSK_MAX_ID + 1
SIZE_MAX = (1 << 64) - 1

FIXED = {
    "nodes": ["flags", "time", "population", "individual"],
    "edges": ["left", "right", "parent", "child"],
    "sites": ["position"],
    "mutations": ["node", "site", "parent", "time"],
    "migrations": ["source", "dest", "node", "left", "right", "time"],
    "individuals": ["flags"],
    "populations": [],
    "provenances": [],
}
RAGGED = {
    "nodes": ["metadata"],
    "edges": ["metadata"],
    "sites": ["ancestral_state", "metadata"],
    "mutations": ["derived_state", "metadata"],
    "migrations": ["metadata"],
    "individuals": ["location", "parents", "metadata"],
    "populations": ["metadata"],
    "provenances": ["timestamp", "record"],
}
TABLES = list(FIXED)


def flag(options, mask):
    """(options & mask) != 0 on the bit-vector model of tsk_flags_t"""
    if z3.is_bv(options):
        return (options & z3.BitVecVal(mask, options.size())) != z3.BitVecVal(0, options.size())
    kk = mask.bit_length() - 1
    return (options / (1 << kk)) % 2 == 1


def wf_offsets(off, n, length):
    """offsets start at 0, end at length and are non-decreasing (stated transitively; the adjacent form
    check_offsets establishes implies it by induction: lemma L_offsets_transitive)"""
    return z3.And(off[0] == 0, off[n] == length,
                  z3.ForAll([i, k], z3.Implies(z3.And(0 <= i, i <= k, k <= n), off[i] <= off[k])))


class Tab:
    """view of one table embedded in (or pointed to by) a struct"""

    def __init__(self, h, ptr, name):
        self.h = h
        self.p = ptr
        self.name = name

    @property
    def n(self):
        return self.h.get(self.p, "num_rows")

    @property
    def max_rows(self):
        return self.h.get(self.p, "max_rows")

    def ptr(self, col):
        return self.h.get(self.p, col)

    def col(self, col):
        return self.h.arr(self.ptr(col))

    def scalar(self, f):
        return self.h.get(self.p, f)

    def rep_parts(self):
        """Rep_T split into independently preserved pieces: 'main' (row counts, fixed columns) and, per ragged
        column r, 'cap:r' (buffers allocated with their capacities) and 'wf:r' (offsets describe the data)"""
        h = self.h
        n, m = self.n, self.max_rows
        main = [n >= 0, n <= m, m <= MAX_ROWS, m >= 1]
        for c_ in FIXED[self.name]:
            p = self.ptr(c_)
            main += [z3.Not(h.isnull(p)), p.off == 0, h.len(p) >= m]
        parts = {"main": z3.And(*main)}
        for r in RAGGED[self.name]:
            p = self.ptr(r)
            po = self.ptr(r + "_offset")
            ln = self.scalar(r + "_length")
            mx = self.scalar("max_" + r + "_length")
            parts["cap:" + r] = z3.And(z3.Not(h.isnull(po)), po.off == 0, h.len(po) >= m + 1,
                                       z3.Not(h.isnull(p)), p.off == 0, h.len(p) >= mx, ln <= mx, ln >= 0)
            parts["wf:" + r] = wf_offsets(h.arr(po), n, ln)
        return parts

    def rep(self, metadata=True):
        """representation invariant of the table (Rep_T): what every public table operation maintains"""
        h = self.h
        n, m = self.n, self.max_rows
        cs = [n >= 0, n <= m, m <= MAX_ROWS, m >= 1]
        for c_ in FIXED[self.name]:
            p = self.ptr(c_)
            cs += [z3.Not(h.isnull(p)), p.off == 0, h.len(p) >= m]
        for r in RAGGED[self.name]:
            p = self.ptr(r)
            po = self.ptr(r + "_offset")
            ln = self.scalar(r + "_length")
            mx = self.scalar("max_" + r + "_length")
            cs += [z3.Not(h.isnull(po)), po.off == 0, h.len(po) >= m + 1]
            cs += [z3.Not(h.isnull(p)), p.off == 0, h.len(p) >= mx, ln <= mx, ln >= 0]
            cs += [wf_offsets(h.arr(po), n, ln)]
        return z3.And(*cs)


class TC:
    """view of a tsk_table_collection_t"""

    def __init__(self, h, self_):
        self.h = h
        self.p = self_
        for t in TABLES:
            setattr(self, t, Tab(h, h.sub(self_, t), t))

    @property
    def L(self):
        return self.h.get(self.p, "sequence_length")

    def rep(self, tables=None):
        return z3.And(*[getattr(self, t).rep() for t in (tables or TABLES)])


def in_ids(x, n):
    return z3.And(0 <= x, x < n)


def in_ids_or_null(x, n):
    return z3.And(-1 <= x, x < n)
