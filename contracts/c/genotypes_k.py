"""C03: kernels of genotypes.c."""
import z3
from vf.registry import contract
from .common import i, j, k, MAX_ROWS

MISSING = -1
u_, v_ = z3.Ints("u v")
lp = z3.Function("lp", z3.IntSort(), z3.IntSort())     # ghost: whose child list a node is on (-1: none)
rk = z3.Function("rk", z3.IntSort(), z3.IntSort())     # ghost: rank along right_sib


@contract("genotypes.c", "tsk_variant_visit", ["self", "sample_index", "derived"])
def variant_visit(c):
    self_, idx, derived = c.arg("self"), c.arg("sample_index"), c.arg("derived")
    h = c.old
    c.requires(z3.Not(h.isnull(self_)))
    gp = h.get(self_, "genotypes")
    c.requires(z3.And(z3.Not(h.isnull(gp)), gp.off == 0, 0 <= idx, idx < h.len(gp)), "sample_index_in_range")
    c.requires(derived < (1 << 31) - 1, "allele_index_fits")
    G = h.arr(gp)
    c.ensures(lambda: z3.And(c.new.arr(gp) == z3.Store(G, idx, derived), (c.result == 1) == (G[idx] == MISSING),
                             z3.Or(c.result == 0, c.result == 1)), "sets_that_genotype_and_reports_if_it_was_missing")
    c.assigns(gp)


def root_list_wf(LC, RS, N, n_nodes):
    """the children of the virtual root N as a list: ghost lp / rk as in lemmas/tree_links.py, plus 'next by rank'"""
    inr = lambda x: z3.And(0 <= x, x <= N)
    return z3.And(
        z3.ForAll([u_], z3.Implies(z3.And(inr(u_), RS[u_] != -1), z3.And(inr(RS[u_]), lp(RS[u_]) == lp(u_), rk(RS[u_]) > rk(u_)))),
        z3.Implies(LC[N] != -1, z3.And(inr(LC[N]), lp(LC[N]) == N)),
        # the first child has the least rank and right_sib moves to the next rank (nothing in between)
        z3.ForAll([u_], z3.Implies(z3.And(inr(u_), lp(u_) == N), z3.And(LC[N] != -1, rk(LC[N]) <= rk(u_)))),
        z3.ForAll([u_, v_], z3.Implies(z3.And(inr(u_), inr(v_), lp(u_) == N, lp(v_) == N, rk(u_) < rk(v_)),
                                      z3.And(RS[u_] != -1, rk(RS[u_]) <= rk(v_)))),
        z3.ForAll([u_, v_], z3.Implies(z3.And(inr(u_), inr(v_), lp(u_) == N, lp(v_) == N, rk(u_) == rk(v_)), u_ == v_)),
        z3.ForAll([u_], z3.Implies(z3.And(inr(u_), lp(u_) == N), u_ < N)))


@contract("genotypes.c", "tsk_variant_mark_missing", ["self"])
def variant_mark_missing(c):
    self_ = c.arg("self")
    h = c.old
    c.requires(z3.Not(h.isnull(self_)))
    tree = h.sub(self_, "tree")
    N = h.get(tree, "virtual_root")
    lcp, rsp = h.get(tree, "left_child"), h.get(tree, "right_sib")
    mp, gp = h.get(self_, "sample_index_map"), h.get(self_, "genotypes")
    c.requires(z3.And(N >= 0, N <= MAX_ROWS - 1))
    for p_ in (lcp, rsp):
        c.requires(z3.And(z3.Not(h.isnull(p_)), p_.off == 0, h.len(p_) >= N + 1))
    c.requires(z3.And(z3.Not(h.isnull(mp)), mp.off == 0, h.len(mp) >= N))
    c.requires(z3.And(z3.Not(h.isnull(gp)), gp.off == 0))
    LC, RS, MAP, G = h.arr(lcp), h.arr(rsp), h.arr(mp), h.arr(gp)
    c.requires(z3.ForAll([u_], z3.Implies(z3.And(0 <= u_, u_ < N), z3.And(-1 <= MAP[u_], MAP[u_] < h.len(gp)))), "map_into_genotypes")
    c.requires(root_list_wf(LC, RS, N, N))
    isolated = lambda r: z3.And(0 <= r, r < N, lp(r) == N, LC[r] == -1, MAP[r] != -1)     # a root with no children, in the map

    def marked(Gn, upto_rank=None):
        cond = lambda r: isolated(r) if upto_rank is None else z3.And(isolated(r), rk(r) < upto_rank)
        return z3.And(
            z3.ForAll([u_], z3.Implies(cond(u_), Gn[MAP[u_]] == MISSING)),
            z3.ForAll([k], z3.Or(Gn[k] == G[k], z3.Exists([u_], z3.And(cond(u_), MAP[u_] == k)))))

    def inv(s):
        Gn = s.arr(gp)
        root = s.root
        return z3.And(z3.Or(root == -1, z3.And(0 <= root, root < N, lp(root) == N)),
                      z3.If(root == -1, marked(Gn), marked(Gn, rk(root))),
                      s.num_missing >= 0)
    c.loop(0).invariant(inv)
    c.ensures(lambda: marked(c.new.arr(gp)), "exactly_the_isolated_roots_in_the_map_become_missing")
    c.assigns(gp)


# ------------------------------------------------------------------------------------------ sample-list path
lpos = z3.Function("lpos", z3.IntSort(), z3.IntSort())      # ghost: position of a sample index along next_sample


@contract("genotypes.c", "tsk_variant_update_genotypes_sample_list", ["self", "node", "derived"])
def variant_update_genotypes_sample_list(c):
    """C03 (default path): the samples below `node` are the stretch of the sample list from left_sample[node] to
    right_sample[node]; exactly their genotypes become `derived`, every other genotype is unchanged, and every index
    followed stays inside the sample arrays"""
    self_, node, derived = c.arg("self"), c.arg("node"), c.arg("derived")
    h = c.old
    c.requires(z3.Not(h.isnull(self_)))
    tree = h.sub(self_, "tree")
    N = h.get(tree, "virtual_root")
    lp_, rp_, np_ = h.get(tree, "left_sample"), h.get(tree, "right_sample"), h.get(tree, "next_sample")
    gp = h.get(self_, "genotypes")
    ns = h.len(gp)
    c.requires(z3.And(N >= 0, N <= MAX_ROWS - 1, 0 <= node, node <= N), "checked_node")
    for p_ in (lp_, rp_):
        c.requires(z3.And(z3.Not(h.isnull(p_)), p_.off == 0, h.len(p_) >= N + 1))
    c.requires(z3.And(z3.Not(h.isnull(np_)), np_.off == 0, h.len(np_) >= ns, z3.Not(h.isnull(gp)), gp.off == 0, ns <= MAX_ROWS))
    c.requires(z3.And(0 <= derived, derived < (1 << 31) - 1), "allele_index_fits")
    LS, RS_, NX, G = h.arr(lp_), h.arr(rp_), h.arr(np_), h.arr(gp)
    ins = lambda x: z3.And(0 <= x, x < ns)
    s_, t2 = z3.Ints("s t2")
    # the sample list (maintained by tsk_tree_update_sample_lists): next moves one position on, positions are unique
    c.requires(z3.ForAll([s_], z3.Implies(ins(s_), z3.Or(NX[s_] == -1, z3.And(ins(NX[s_]), lpos(NX[s_]) == lpos(s_) + 1)))), "list_next")
    c.requires(z3.ForAll([s_, t2], z3.Implies(z3.And(ins(s_), ins(t2), lpos(s_) == lpos(t2)), s_ == t2)), "positions_unique")
    c.requires(z3.ForAll([s_], z3.Implies(ins(s_), z3.And(0 <= lpos(s_), lpos(s_) < ns))), "positions_are_0_to_num_samples")
    L, R = LS[node], RS_[node]
    c.requires(z3.Or(L == -1, z3.And(ins(L), ins(R), lpos(L) <= lpos(R),
                                     z3.ForAll([s_], z3.Implies(z3.And(ins(s_), lpos(L) <= lpos(s_), lpos(s_) < lpos(R)), NX[s_] != -1)))),
               "stretch_of_the_node")
    below = lambda x, upto: z3.And(ins(x), L != -1, lpos(L) <= lpos(x), lpos(x) < upto)

    def painted(Gn, upto):
        return z3.ForAll([s_], z3.Implies(ins(s_), Gn[s_] == z3.If(below(s_, upto), derived, G[s_])))
    c.loop(0).invariant(lambda s: z3.And(L != -1, ins(s.index), lpos(L) <= lpos(s.index), lpos(s.index) <= lpos(R), s.stop == R,
                                         s.ret >= 0, s.ret <= lpos(s.index) - lpos(L), painted(s.arr(gp), lpos(s.index))))
    c.ensures(lambda: z3.And(c.result >= 0, z3.If(L == -1, c.new.arr(gp) == G, painted(c.new.arr(gp), lpos(R) + 1))),
              "exactly_the_samples_below_the_node_take_the_derived_allele")
    c.assigns(gp)


# ------------------------------------------------------------------------------------------ sample list of a variant
@contract("trees.c", "tsk_treeseq_get_num_nodes", ["self"])
def treeseq_get_num_nodes(c):
    self_ = c.arg("self")
    h = c.old
    tp = h.get(self_, "tables")
    c.requires(z3.And(z3.Not(h.isnull(self_)), z3.Not(h.isnull(tp)), tp.off == 0, h.len(tp) >= 1))
    c.ensures(lambda: c.result == h.get(h.sub(tp, "nodes"), "num_rows"), "value")
    c.assigns()


@contract("genotypes.c", "variant_init_samples_and_index_map",
          ["self", "tree_sequence", "samples", "num_samples", "num_samples_alloc", "options"])
def variant_init_samples_and_index_map(c):
    """C09 (named in the property): every requested sample id is checked against the node table - and, unless isolated
    samples are imputed, against the sample flag - before it indexes the reverse map; duplicates are refused"""
    from .common import TC, flag
    self_, tsp, sp, ns, nalloc, options = (c.arg("self"), c.arg("tree_sequence"), c.arg("samples"), c.arg("num_samples"),
                                           c.arg("num_samples_alloc"), c.arg("options"))
    h, E = c.old, c.E
    c.requires(z3.And(z3.Not(h.isnull(self_)), z3.Not(h.isnull(tsp))))
    tp = h.get(tsp, "tables")
    c.requires(z3.And(z3.Not(h.isnull(tp)), tp.off == 0, h.len(tp) >= 1))
    T = TC(h, tp)
    c.requires(T.nodes.rep())
    nn = T.nodes.n
    c.requires(z3.And(0 <= ns, ns <= nalloc, nalloc <= MAX_ROWS), "allocation_covers_the_samples")
    c.requires(z3.Implies(ns > 0, z3.And(z3.Not(h.isnull(sp)), sp.off == 0, h.len(sp) >= ns)))
    ids = h.arr(sp) if sp.region is not None else None
    fl = T.nodes.col("flags")
    impute = flag(options, E.TSK_ISOLATED_NOT_MISSING)
    good = (lambda q: z3.And(0 <= ids[q], ids[q] < nn, z3.Or(impute, flag(fl[ids[q]], E.TSK_NODE_IS_SAMPLE)))) \
        if ids is not None else (lambda q: z3.BoolVal(True))

    def mapped(s, upto):
        mp = s.get(self_, "alt_sample_index_map")
        if mp.region is None:
            return z3.BoolVal(upto is None)
        M = s.arr(mp)
        return z3.And(z3.Not(s.isnull(mp)), mp.off == 0, s.len(mp) >= nn,
                      z3.ForAll([u_], z3.Implies(z3.And(0 <= u_, u_ < upto), z3.And(good(u_), M[ids[u_]] == u_))),
                      z3.ForAll([k], z3.Implies(z3.And(0 <= k, k < nn), z3.And(-1 <= M[k], M[k] < upto))))
    c.loop(0).invariant(lambda s: z3.And(0 <= s.j, s.j <= ns, s.ret == 0, s.num_nodes == nn, mapped(s, s.j)))
    c.ensures(lambda: z3.Implies(c.result == 0, mapped(c.new, ns)), "accepted_ids_checked_and_mapped_to_their_positions")
    c.ensures(lambda: z3.Or(c.result == 0, c.result == E.TSK_ERR_NO_MEMORY, c.result == E.TSK_ERR_NODE_OUT_OF_BOUNDS,
                            c.result == E.TSK_ERR_DUPLICATE_SAMPLE, c.result == E.TSK_ERR_MUST_IMPUTE_NON_SAMPLES), "codes")
    c.assigns(self_, ["alt_samples", "alt_sample_index_map"])
