"""C19: kernels of the IBD finder (tables.c)."""
import z3
from vf.registry import contract
from vf.cvc import Dbl, d_lt, d_le, d_gt, d_ge, d_eq, d_const, f_sub
from .common import TC, i, j, k, in_ids, MAX_ROWS

lo_, hi_ = z3.Ints("lo hi")


@contract("tables.c", "pair_to_integer", ["a", "b", "N"])
def pair_to_integer(c):
    a, b, N = c.arg("a"), c.arg("b"), c.arg("N")
    c.requires(z3.And(0 <= a, a < N, 0 <= b, b < N, N <= MAX_ROWS), "ids_below_N")
    mn = z3.If(a < b, a, b)
    mx = z3.If(a < b, b, a)
    c.ensures(lambda: c.result == mn * N + mx, "key_is_min_times_N_plus_max")
    c.assigns()


@contract("tables.c", "integer_to_pair", ["index", "N", "a", "b"])
def integer_to_pair(c):
    index, N, ap, bp = c.arg("index"), c.arg("N"), c.arg("a"), c.arg("b")
    h = c.old
    c.requires(z3.And(z3.Not(h.isnull(ap)), h.len(ap) >= 1, z3.Not(h.isnull(bp)), h.len(bp) >= 1))
    # index is a key produced by pair_to_integer
    c.requires(z3.And(0 < N, N <= MAX_ROWS, 0 <= lo_, lo_ < N, 0 <= hi_, hi_ < N, index == lo_ * N + hi_), "index_is_a_key")
    c.ensures(lambda: z3.And(c.new.get(ap) == lo_, c.new.get(bp) == hi_), "inverse_of_pair_to_integer")
    c.assigns(ap)
    c.assigns(bp)


@contract("tables.c", "tsk_identity_segments_get_key", ["self", "a", "b"])
def identity_segments_get_key(c):
    self_, a, b = c.arg("self"), c.arg("a"), c.arg("b")
    h = c.old
    E = c.E
    c.requires(z3.Not(h.isnull(self_)))
    N = h.get(self_, "num_nodes")
    c.requires(z3.And(N >= 0, N <= MAX_ROWS))
    valid = z3.And(0 <= a, a < N, 0 <= b, b < N, a != b)
    c.ensures(lambda: (c.result >= 0) == valid, "key_iff_valid_pair")
    c.ensures(lambda: z3.Implies(valid, c.result == z3.If(a < b, a, b) * N + z3.If(a < b, b, a)), "key_value")
    c.ensures(lambda: z3.Implies(z3.Not(valid), z3.Or(c.result == E.TSK_ERR_NODE_OUT_OF_BOUNDS,
                                                      c.result == E.TSK_ERR_SAME_NODES_IN_PAIR)), "codes")
    c.assigns()


@contract("tables.c", "tsk_ibd_finder_passes_filters", ["self", "a", "b", "left", "right"])
def passes_filters(c):
    self_, a, b, left, right = c.arg("self"), c.arg("a"), c.arg("b"), c.arg("left"), c.arg("right")
    h = c.old
    c.requires(z3.Not(h.isnull(self_)))
    ss = h.get(self_, "sample_set_id")
    between = h.get(self_, "finding_between") != 0
    c.requires(z3.Implies(between, z3.And(z3.Not(h.isnull(ss)), ss.off == 0, h.len(ss) > a, h.len(ss) > b, a >= 0, b >= 0)))
    span = f_sub(right, left)
    from vf.cvc import d_isnan
    # coordinates are finite (C02 gate) so the span is a number; min_span is validated by the caller
    c.requires(z3.And(z3.Not(d_isnan(span)), z3.Not(d_isnan(h.get(self_, "min_span")))), "span_and_min_span_are_numbers")
    spec = z3.And(a != b, d_gt(span, h.get(self_, "min_span")),
                  z3.Implies(between, h.arr(ss)[a] != h.arr(ss)[b]))
    c.ensures(lambda: (c.result != 0) == spec, "passes_iff_distinct_span_above_min_and_between_sets")
    c.assigns()
