"""C10 / C05: the read path of kastore.c over an abstract byte stream (DESIGN.md A.4).

All sizes are 64-bit unsigned with wrap-around modelled exactly; the postcondition of
kastore_read_descriptors says that the *mathematical* sums stay inside the file."""
import z3
from vf.registry import contract
from vf import builtins
from .common import i, j, k, SIZE_MAX

HDR = 64
DSC = 64
TSZ = [1, 1, 2, 2, 4, 4, 8, 8, 4, 8]


def tsz(t):
    e = z3.IntVal(8)
    for q in range(len(TSZ) - 2, -1, -1):
        e = z3.If(t == q, z3.IntVal(TSZ[q]), e)
    return e


def align8(x):
    return z3.If(x % 8 == 0, x, x + (8 - x % 8))


class Items:
    def __init__(self, h, self_):
        self.h = h
        self.p = h.get(self_, "items")
        self.n = h.get(self_, "num_items")
        self.fs = h.get(self_, "file_size")

    def f(self, name):
        return self.h.arr(self.p, name)

    def rep(self):
        h = self.h
        return z3.And(z3.Not(h.isnull(self.p)), self.p.off == 0, h.len(self.p) >= self.n,
                      self.n >= 1, self.n < (1 << 32), self.fs >= 0,
                      # file sizes within 8 bytes of 2^64 (where aligning an offset up could wrap) are excluded:
                      # no such file can be read (malloc/fread of that size fail); stated as an assumption
                      self.fs <= (1 << 63))

    def layout(self):
        """what a successfully parsed descriptor table guarantees (no 64-bit wrap anywhere)"""
        n, fs = self.n, self.fs
        ks, kl, as_, al, ty = self.f("key_start"), self.f("key_len"), self.f("array_start"), self.f("array_len"), self.f("type")
        D = HDR + DSC * n
        end = lambda q: as_[q] + al[q] * tsz(ty[q])
        return z3.And(
            D <= fs,
            z3.ForAll([j], z3.Implies(z3.And(0 <= j, j < n), z3.And(
                0 <= ty[j], ty[j] < 10, 0 <= ks[j], 0 <= kl[j], 0 <= as_[j], 0 <= al[j],
                ks[j] + kl[j] <= fs,                      # mathematical sum
                end(j) <= fs,
                as_[j] % 8 == 0))),
            ks[0] == D,
            z3.ForAll([j], z3.Implies(z3.And(0 <= j, j < n), ks[j] >= D)),
            z3.ForAll([j], z3.Implies(z3.And(0 <= j, j < n - 1), ks[j + 1] == ks[j] + kl[j])),
            as_[0] == align8(ks[n - 1] + kl[n - 1]),
            z3.ForAll([j], z3.Implies(z3.And(0 <= j, j < n - 1), as_[j + 1] == align8(end(j)))),
            end(n - 1) == fs)


def file_of(c, self_, state_view):
    fp = state_view.get(self_, "file")
    F, m, cur = builtins.file_model(c.ex, state_view.s, fp)
    return F, m, cur


@contract("kastore.c", "type_size", ["type"])
def type_size(c):
    t = c.arg("type")
    c.requires(z3.And(0 <= t, t < 10), "type_in_range")
    c.ensures(lambda: c.result == tsz(t), "size_of_type")
    c.assigns()


@contract("kastore.c", "kastore_get_read_io_error", ["self"])
def get_read_io_error(c):
    self_ = c.arg("self")
    h = c.old
    E = c.E
    c.requires(z3.And(z3.Not(h.isnull(self_)), z3.Not(h.isnull(h.get(self_, "file")))))
    c.ensures(lambda: z3.Or(c.result == E.KAS_ERR_IO, c.result == E.KAS_ERR_BAD_FILE_FORMAT), "an_error_code")
    c.assigns()


@contract("kastore.c", "kastore_read_header", ["self"])
def read_header(c):
    self_ = c.arg("self")
    h = c.old
    E = c.E
    c.requires(z3.And(z3.Not(h.isnull(self_)), z3.Not(h.isnull(h.get(self_, "file")))))
    F, m, cur0 = file_of(c, self_, h)
    avail = m - cur0["pos"]

    def post():
        F2, m2, cur1 = file_of(c, self_, c.new)
        return z3.And(
            z3.Implies(z3.And(avail == 0, z3.Not(cur0["eof"])), c.result == E.KAS_ERR_EOF),
            z3.Implies(z3.And(0 < avail, avail < HDR),
                       z3.Or(c.result == E.KAS_ERR_BAD_FILE_FORMAT, c.result == E.KAS_ERR_IO)),
            z3.Implies(c.result == 0, z3.And(avail >= HDR, cur1["pos"] == cur0["pos"] + HDR,
                                             c.new.get(self_, "file_size") >= HDR,
                                             c.new.get(self_, "num_items") >= 0,
                                             c.new.get(self_, "num_items") < (1 << 32))))
    c.ensures(post, "short_header_rejected_eof_distinguished")
    c.ensures(lambda: z3.Or(c.result == 0, c.result == E.KAS_ERR_EOF, c.result == E.KAS_ERR_BAD_FILE_FORMAT,
                            c.result == E.KAS_ERR_IO, c.result == E.KAS_ERR_VERSION_TOO_OLD,
                            c.result == E.KAS_ERR_VERSION_TOO_NEW), "codes")
    c.assigns(self_, ["file_version", "num_items", "file_size"])


@contract("kastore.c", "kastore_read_descriptors", ["self"], opts={"elide_wrap": True})
def read_descriptors(c):
    self_ = c.arg("self")
    h = c.old
    E = c.E
    c.requires(z3.And(z3.Not(h.isnull(self_)), z3.Not(h.isnull(h.get(self_, "file")))))
    X = Items(h, self_)
    c.requires(X.rep())
    n, fs = X.n, X.fs
    F, m, cur0 = file_of(c, self_, h)
    D = HDR + DSC * n
    W = 1 << 64
    wadd = lambda a, b: (a + b) % W

    def parsed(s, upto):
        Y = Items(s, self_)
        ks, kl, as_, al, ty = Y.f("key_start"), Y.f("key_len"), Y.f("array_start"), Y.f("array_len"), Y.f("type")
        return z3.ForAll([i], z3.Implies(z3.And(0 <= i, i < upto), z3.And(
            0 <= ty[i], ty[i] < 10, 0 <= ks[i], ks[i] < W, 0 <= kl[i], kl[i] < W, 0 <= as_[i], as_[i] < W,
            0 <= al[i], al[i] < W,
            ks[i] + kl[i] <= fs, as_[i] + al[i] * tsz(ty[i]) <= fs)))

    c.loop(0).invariant(lambda s: z3.And(0 <= s.j, s.j <= n, s.descriptor_offset == DSC * s.j, s.size == DSC * n,
                                         s.ret == E.KAS_ERR_BAD_FILE_FORMAT,
                                         z3.Not(s.isnull(s.read_buffer)), s.read_buffer.off == 0,
                                         s.len(s.read_buffer) == DSC * n, D <= fs, parsed(s, s.j)))

    def tiled(s, upto):
        Y = Items(s, self_)
        ks, kl = Y.f("key_start"), Y.f("key_len")
        return z3.And(z3.Implies(upto > 0, ks[0] == D),
                      z3.ForAll([i], z3.Implies(z3.And(0 <= i, i < upto), ks[i] >= D)),
                      z3.ForAll([i], z3.Implies(z3.And(0 <= i, i < upto - 1), ks[i + 1] == ks[i] + kl[i])))
    c.loop(1).invariant(lambda s: z3.And(0 <= s.j, s.j <= n, D <= fs, parsed(s, n), tiled(s, s.j),
                                         s.ret == E.KAS_ERR_BAD_FILE_FORMAT,
                                         s.offset == z3.If(s.j == 0, D, Items(s, self_).f("key_start")[s.j - 1]
                                                           + Items(s, self_).f("key_len")[s.j - 1]),
                                         s.offset <= fs))

    def arrays(s, upto):
        Y = Items(s, self_)
        ks, kl, as_, al, ty = Y.f("key_start"), Y.f("key_len"), Y.f("array_start"), Y.f("array_len"), Y.f("type")
        end = lambda q: as_[q] + al[q] * tsz(ty[q])
        return z3.And(z3.Implies(upto > 0, as_[0] == align8(ks[n - 1] + kl[n - 1])),
                      z3.ForAll([i], z3.Implies(z3.And(0 <= i, i < upto), as_[i] % 8 == 0)),
                      z3.ForAll([i], z3.Implies(z3.And(0 <= i, i < upto - 1), as_[i + 1] == align8(end(i)))))
    def off2(s):
        Y = Items(s, self_)
        return z3.If(s.j == 0, Y.f("key_start")[n - 1] + Y.f("key_len")[n - 1],
                     Y.f("array_start")[s.j - 1] + Y.f("array_len")[s.j - 1] * tsz(Y.f("type")[s.j - 1]))
    L2 = c.loop(2)
    L2.invariant(lambda s: z3.And(0 <= s.j, s.j <= n, D <= fs, s.ret == E.KAS_ERR_BAD_FILE_FORMAT), "basic")
    L2.invariant(lambda s: parsed(s, n), "parsed")
    L2.invariant(lambda s: tiled(s, n), "tiled")
    L2.invariant(lambda s: z3.And(s.offset == off2(s), s.offset <= fs), "offset")
    def arr_parts(s):
        Y = Items(s, self_)
        ks, kl, as_, al, ty = Y.f("key_start"), Y.f("key_len"), Y.f("array_start"), Y.f("array_len"), Y.f("type")
        end = lambda q: as_[q] + al[q] * tsz(ty[q])
        return [("first", z3.Implies(s.j > 0, as_[0] == align8(ks[n - 1] + kl[n - 1]))),
                ("aligned", z3.ForAll([i], z3.Implies(z3.And(0 <= i, i < s.j), as_[i] % 8 == 0))),
                ("adjacent", z3.ForAll([i], z3.Implies(z3.And(0 <= i, i < s.j - 1), as_[i + 1] == align8(end(i)))))]
    for q, nm in enumerate(["first", "aligned", "adjacent"]):
        L2.invariant((lambda s, q=q: arr_parts(s)[q][1]), "arrays_" + nm)
    c.ensures(lambda: z3.Implies(c.result == 0, Items(c.new, self_).layout()), "accepted_layout_inside_file_no_wrap")
    c.ensures(lambda: z3.Or(c.result == 0, c.result == E.KAS_ERR_BAD_FILE_FORMAT, c.result == E.KAS_ERR_BAD_TYPE,
                            c.result == E.KAS_ERR_NO_MEMORY, c.result == E.KAS_ERR_IO), "codes")
    # truncated stream: fewer than 64*n bytes left for the descriptor table
    c.ensures(lambda: z3.Implies(m - cur0["pos"] < DSC * n, c.result != 0), "truncated_descriptor_table_rejected")
    c.assigns(X.p, ["type", "key_start", "key_len", "array_start", "array_len"])


@contract("kastore.c", "kastore_read_file", ["self"], opts={"elide_wrap": True})
def read_file(c):
    self_ = c.arg("self")
    h = c.old
    E = c.E
    c.requires(z3.And(z3.Not(h.isnull(self_)), z3.Not(h.isnull(h.get(self_, "file")))))
    X = Items(h, self_)
    c.requires(X.rep())
    c.requires(X.layout())
    n, fs = X.n, X.fs
    D = HDR + DSC * n
    F, m, cur0 = file_of(c, self_, h)
    read_all = (h.get(self_, "flags") % 2) == 1
    as_ = X.f("array_start")

    def inv(s):
        F2, m2, cur = file_of(c, self_, s)
        kb = s.get(self_, "key_read_buffer")
        return z3.And(0 <= s.j, s.j <= n, s.ret == 0, s.offset == D,
                      (s.read_all != 0) == read_all,
                      z3.Not(s.isnull(kb)), kb.off == 0, s.len(kb) == as_[0] - D,
                      z3.Implies(read_all, cur["pos"] == cur0["pos"] + z3.If(s.j == n, fs, as_[s.j]) - D),
                      m - cur0["pos"] >= as_[0] - D)
    c.loop(0).invariant(inv)

    def post():
        F2, m2, cur1 = file_of(c, self_, c.new)
        remaining = m - cur0["pos"]
        return z3.And(
            # every proper prefix of the stored object is rejected (read-all mode reads every array)
            z3.Implies(z3.And(read_all, remaining < fs - D), c.result != 0),
            z3.Implies(remaining < as_[0] - D, c.result != 0),
            # exactly one stored object is consumed
            z3.Implies(z3.And(read_all, c.result == 0), cur1["pos"] == cur0["pos"] + (fs - D)))
    c.ensures(post, "truncated_object_rejected_and_exactly_one_object_consumed")
    c.ensures(lambda: z3.Or(c.result == 0, c.result == E.KAS_ERR_BAD_FILE_FORMAT, c.result == E.KAS_ERR_NO_MEMORY,
                            c.result == E.KAS_ERR_IO), "codes")
    c.assigns(self_, ["key_read_buffer"])
    c.assigns(X.p, ["key", "array"])
