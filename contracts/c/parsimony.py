"""C20: bit-set kernels of tsk_tree_map_mutations (trees.c); 64-bit sets are bit-vectors."""
import z3
from vf.registry import contract

W = 64


def bv(x):
    return x if z3.is_bv(x) else z3.Int2BV(x, W)


@contract("trees.c", "set_bit", ["value", "bit"], opts={"bv_types": ["uint64_t"]})
def set_bit(c):
    v, b = c.arg("value"), c.arg("bit")
    c.requires(z3.And(0 <= b, b < W), "allele_below_64")
    c.ensures(lambda: bv(c.result) == (bv(v) | (z3.BitVecVal(1, W) << bv(b))), "value_with_bit_set")
    c.assigns()


@contract("trees.c", "bit_is_set", ["value", "bit"], opts={"bv_types": ["uint64_t"]})
def bit_is_set(c):
    v, b = c.arg("value"), c.arg("bit")
    c.requires(z3.And(0 <= b, b < W), "allele_below_64")
    c.ensures(lambda: (c.result != 0) == (z3.Extract(0, 0, z3.LShR(bv(v), bv(b))) == 1), "tests_that_bit")
    c.assigns()


@contract("trees.c", "get_smallest_set_bit", ["v"], opts={"bv_types": ["uint64_t"]})
def get_smallest_set_bit(c):
    v = c.arg("v")
    zero = z3.BitVecVal(0, W)
    one = z3.BitVecVal(1, W)
    c.requires(bv(v) != zero, "non_empty_set")

    def low_clear(r):
        # bits [0, r) of v are clear
        return (bv(v) & ((one << bv(r)) - one)) == zero
    c.loop(0).invariant(lambda s: z3.And(0 <= s.r, s.r < W, bv(s.t) == (one << bv(s.r)), low_clear(s.r)))
    c.ensures(lambda: z3.And(0 <= c.result, c.result < W, low_clear(c.result),
                             (z3.LShR(bv(v), bv(c.result)) & one) == one), "lowest_set_bit")
    c.assigns()
