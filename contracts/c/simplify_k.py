"""C04: the two simplifier steps that create and withdraw output nodes.

simplifier_record_node appends exactly one node to the output table - the input row with its time, population,
individual and metadata, its flags unchanged except the sample bit, which is set exactly when the node is one of the
requested samples (unless TSK_SIMPLIFY_NO_UPDATE_SAMPLE_FLAGS) - and maps the input id to the new row;
simplifier_rewind_node withdraws it again (map entry NULL, output table truncated to the given length)."""
import z3
from vf.registry import contract
from vf.cvc import Ptr
from .common import i, j, k, flag, MAX_ROWS
from .tables_rows import NodeView, rows_prefix_equal, node_assigns, appended

b_ = z3.Int("b")


def sim_pre(c):
    self_ = c.arg("self")
    h, E = c.old, c.E
    c.requires(z3.Not(h.isnull(self_)))
    IN = NodeView(h, h.sub(h.sub(self_, "input_tables"), "nodes"))
    outp = h.get(self_, "tables")
    c.requires(z3.And(z3.Not(h.isnull(outp)), outp.off == 0, h.len(outp) >= 1))
    OUT = NodeView(h, h.sub(outp, "nodes"))
    c.requires(IN.rep())
    c.requires(OUT.rep())
    nm, iss = h.get(self_, "node_id_map"), h.get(self_, "is_sample")
    for p in (nm, iss):
        c.requires(z3.And(z3.Not(h.isnull(p)), p.off == 0, h.len(p) >= IN.n))
    return self_, h, E, IN, OUT, nm, iss, outp


@contract("tables.c", "simplifier_record_node", ["self", "input_id"])
def simplifier_record_node(c):
    self_, h, E, IN, OUT, nm, iss, outp = sim_pre(c)
    u = c.arg("input_id")
    c.requires(z3.And(0 <= u, u < IN.n), "input_node_exists")
    f0 = IN.col("flags")[u]
    keepf = flag(h.get(self_, "options"), E.TSK_SIMPLIFY_NO_UPDATE_SAMPLE_FLAGS)
    one = z3.BitVecVal(1, 32)
    newf = z3.If(keepf, f0, z3.If(h.arr(iss)[u] != 0, f0 | one, f0 & ~one))
    md = Ptr(h.get(h.sub(h.sub(self_, "input_tables"), "nodes"), "metadata").region, IN.off[u])
    mdlen = IN.off[u + 1] - IN.off[u]

    def post():
        N = NodeView(c.new, h.sub(outp, "nodes"))
        return z3.And(N.rep(),
                      z3.Implies(c.result >= 0, z3.And(
                          c.result == OUT.n, c.new.arr(nm)[u] == OUT.n,
                          appended(N, OUT, newf, IN.col("time")[u], IN.col("population")[u], IN.col("individual")[u], md, mdlen, h))),
                      z3.Implies(c.result < 0, z3.And(N.n == OUT.n, N.mlen == OUT.mlen, rows_prefix_equal(N, OUT, OUT.n))),
                      z3.ForAll([i], z3.Implies(z3.And(0 <= i, i < IN.n, i != u), c.new.arr(nm)[i] == h.arr(nm)[i])))
    c.ensures(post, "one_output_node_with_the_input_row_and_the_sample_bit_rule")
    c.ensures(lambda: z3.Or(c.result >= 0, c.result == E.TSK_ERR_NO_MEMORY, c.result == E.TSK_ERR_TABLE_OVERFLOW,
                            c.result == E.TSK_ERR_COLUMN_OVERFLOW), "codes")
    node_assigns(c, h.sub(outp, "nodes"))
    c.assigns(nm)


@contract("tables.c", "simplifier_rewind_node", ["self", "input_id", "output_id"])
def simplifier_rewind_node(c):
    self_, h, E, IN, OUT, nm, iss, outp = sim_pre(c)
    u, v = c.arg("input_id"), c.arg("output_id")
    c.requires(z3.And(0 <= u, u < IN.n, 0 <= v), "ids")

    def post():
        N = NodeView(c.new, h.sub(outp, "nodes"))
        return z3.And(N.rep(), c.new.arr(nm)[u] == -1,
                      z3.ForAll([i], z3.Implies(z3.And(0 <= i, i < IN.n, i != u), c.new.arr(nm)[i] == h.arr(nm)[i])),
                      (c.result == 0) == (v <= OUT.n),
                      z3.Implies(c.result == 0, z3.And(N.n == v, N.mlen == OUT.off[v], rows_prefix_equal(N, OUT, v))),
                      z3.Implies(c.result != 0, z3.And(N.n == OUT.n, N.mlen == OUT.mlen, rows_prefix_equal(N, OUT, OUT.n))))
    c.ensures(post, "map_entry_null_and_output_truncated")
    c.assigns(h.sub(outp, "nodes"), ["num_rows", "metadata_length"])
    c.assigns(nm)
