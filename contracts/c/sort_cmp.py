"""C07: the comparators used by the table sorter (loop-free, full domain: complete proofs).
Each returns the sign of the lexicographic comparison of its documented key."""
import z3
from vf.registry import contract
from vf.cfront import parse_type
from vf.cvc import Dbl, d_lt, d_gt, d_eq, d_isunknown, d_isnan


def sgn(gt, lt):
    return z3.If(gt, 1, 0) - z3.If(lt, 1, 0)


def sgn_i(x, y):
    return sgn(x > y, x < y)


def sgn_d(x, y):
    return sgn(d_gt(x, y), d_lt(x, y))


def lex(parts):
    """first non-zero of the list of sign terms"""
    e = z3.IntVal(0)
    for p in reversed(parts):
        e = z3.If(p != 0, p, e)
    return e


def two(c, tname):
    a, b = c.arg("a"), c.arg("b")
    h = c.old
    if c.mode != "call":
        c.ex.type_region(a, parse_type(tname))
        c.ex.type_region(b, parse_type(tname))
    c.requires(z3.And(z3.Not(h.isnull(a)), h.len(a) >= 1, a.off >= 0, z3.Not(h.isnull(b)), h.len(b) >= 1, b.off >= 0))
    g = lambda p, f: h.get(p, f)
    return a, b, g


def spec_edge(ta, pa, ca, la, tb, pb, cb, lb):
    return lex([sgn_d(ta, tb), sgn_i(pa, pb), sgn_i(ca, cb), sgn_d(la, lb)])


@contract("tables.c", "cmp_edge", ["a", "b"])
def cmp_edge(c):
    a, b, g = two(c, "edge_sort_t")
    c.ensures(lambda: c.result == spec_edge(g(a, "time"), g(a, "parent"), g(a, "child"), g(a, "left"),
                                            g(b, "time"), g(b, "parent"), g(b, "child"), g(b, "left")),
              "sign_of_lexicographic_key_time_parent_child_left")
    c.assigns()


def spec_site(pa, ia, pb, ib):
    return lex([sgn_d(pa, pb), sgn_i(ia, ib)])


@contract("tables.c", "cmp_site", ["a", "b"])
def cmp_site(c):
    a, b, g = two(c, "tsk_site_t")
    c.ensures(lambda: c.result == spec_site(g(a, "position"), g(a, "id"), g(b, "position"), g(b, "id")),
              "sign_of_lexicographic_key_position_id")
    c.assigns()


def spec_mutation(sa, ta, ia, sb, tb, ib):
    both_known = z3.And(z3.Not(d_isunknown(ta)), z3.Not(d_isunknown(tb)))
    return lex([sgn_i(sa, sb), z3.If(both_known, sgn_d(tb, ta), 0), sgn_i(ia, ib)])


@contract("tables.c", "cmp_mutation", ["a", "b"])
def cmp_mutation(c):
    a, b, g = two(c, "tsk_mutation_t")
    c.ensures(lambda: c.result == spec_mutation(g(a, "site"), g(a, "time"), g(a, "id"), g(b, "site"), g(b, "time"), g(b, "id")),
              "sign_of_key_site_then_older_time_first_when_both_known_then_id")
    c.assigns()


@contract("tables.c", "cmp_mutation_canonical", ["a", "b"])
def cmp_mutation_canonical(c):
    a, b, g = two(c, "mutation_canonical_sort_t")
    ta, tb = g(a, "mut.time"), g(b, "mut.time")
    both_known = z3.And(z3.Not(d_isunknown(ta)), z3.Not(d_isunknown(tb)))
    c.ensures(lambda: c.result == lex([sgn_i(g(a, "mut.site"), g(b, "mut.site")), z3.If(both_known, sgn_d(tb, ta), 0),
                                       sgn_i(g(b, "num_descendants"), g(a, "num_descendants")),
                                       sgn_i(g(a, "mut.node"), g(b, "mut.node")), sgn_i(g(a, "mut.id"), g(b, "mut.id"))]),
              "sign_of_key_site_time_desc_num_descendants_desc_node_id")
    c.assigns()


def spec_migration(a, b):
    return lex([sgn_d(a[0], b[0]), sgn_i(a[1], b[1]), sgn_i(a[2], b[2]), sgn_d(a[3], b[3]), sgn_i(a[4], b[4])])


@contract("tables.c", "cmp_migration", ["a", "b"])
def cmp_migration(c):
    a, b, g = two(c, "migration_sort_t")
    f = ["time", "source", "dest", "left", "node"]
    c.ensures(lambda: c.result == spec_migration([g(a, x) for x in f], [g(b, x) for x in f]),
              "sign_of_lexicographic_key_time_source_dest_left_node")
    c.assigns()
