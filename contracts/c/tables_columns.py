"""C13: bulk column setting of the node table against the list-of-rows view: append_columns appends num_rows rows
built from the given columns (NULL population/individual -> -1, NULL metadata -> empty), after rejecting missing
mandatory columns and ill-formed offsets; set_columns = clear + append_columns."""
import z3
from vf.registry import contract
from .common import i, j, k, wf_offsets, MAX_ROWS
from .tables_rows import NodeView, rows_prefix_equal, node_assigns, NODE_FIXED

b_ = z3.Int("b")
t_ = z3.Int("t")
PARAMS = ["self", "num_rows", "flags", "time", "population", "individual", "metadata", "metadata_offset"]


def _null(h, p):
    return h.isnull(p) if p.region is not None else z3.BoolVal(True)


def column_args(c, h):
    """the caller (the extension) passes arrays of num_rows elements (offsets: num_rows + 1, data: offsets[num_rows])"""
    n = c.arg("num_rows")
    a = {nm: c.arg(nm) for nm in PARAMS[2:]}
    for nm in ("flags", "time", "population", "individual"):
        p = a[nm]
        if p.region is not None:
            c.requires(z3.Or(h.isnull(p), z3.And(p.off == 0, h.len(p) >= n)))
    mo, md = a["metadata_offset"], a["metadata"]
    if mo.region is not None:
        c.requires(z3.Or(h.isnull(mo), z3.And(mo.off == 0, h.len(mo) >= n + 1)))
        off = h.arr(mo)
        if md.region is not None:
            c.requires(z3.Or(h.isnull(md), h.isnull(mo), z3.And(md.off == 0, h.len(md) >= off[n])))
        # adjacent monotonicity implies the transitive form (lemmas/induction.py: offsets_transitive)
        c.requires(z3.Implies(z3.ForAll([i], z3.Implies(z3.And(0 <= i, i < n), off[i] <= off[i + 1])),
                              z3.ForAll([i, k], z3.Implies(z3.And(0 <= i, i <= k, k <= n), off[i] <= off[k]))),
                   "lemma_offsets_transitive")
    return n, a


def bad_param(h, a):
    return z3.Or(_null(h, a["flags"]), _null(h, a["time"]), _null(h, a["metadata"]) != _null(h, a["metadata_offset"]))


def offsets_ok(h, a, n):
    mo = a["metadata_offset"]
    if mo.region is None:
        return z3.BoolVal(True)
    off = h.arr(mo)
    return z3.Or(h.isnull(mo), z3.And(off[0] == 0, z3.ForAll([i], z3.Implies(z3.And(0 <= i, i < n), off[i] <= off[i + 1]))))


def rows_appended(N, V, base, h, a, n):
    """rows base .. base + n of N are the rows described by the column arguments"""
    cs = []
    for nm in ("flags", "time"):
        p = a[nm]
        if p.region is not None:
            src = h.arr(p)
            cs.append(z3.ForAll([t_], z3.Implies(z3.And(0 <= t_, t_ < n), N.col(nm)[base + t_] == src[t_])))
    for nm in ("population", "individual"):
        p = a[nm]
        if p.region is not None:
            src = h.arr(p)
            cs.append(z3.ForAll([t_], z3.Implies(z3.And(0 <= t_, t_ < n),
                                                 N.col(nm)[base + t_] == z3.If(h.isnull(p), -1, src[t_]))))
        else:
            cs.append(z3.ForAll([t_], z3.Implies(z3.And(0 <= t_, t_ < n), N.col(nm)[base + t_] == -1)))
    mo, md = a["metadata_offset"], a["metadata"]
    if mo.region is not None and md.region is not None:
        off, data = h.arr(mo), h.arr(md)
        nomd = z3.Or(h.isnull(mo), h.isnull(md))
        cs.append(z3.ForAll([t_], z3.Implies(z3.And(0 <= t_, t_ <= n),
                                             N.off[base + t_] == V.mlen + z3.If(nomd, 0, off[t_]))))
        cs.append(N.mlen == V.mlen + z3.If(nomd, 0, off[n]))
        cs.append(z3.Implies(z3.Not(nomd), z3.ForAll([b_], z3.Implies(z3.And(0 <= b_, b_ < off[n]),
                                                                     N.md[V.mlen + b_] == data[b_]))))
    else:
        cs.append(z3.ForAll([t_], z3.Implies(z3.And(0 <= t_, t_ <= n), N.off[base + t_] == V.mlen)))
        cs.append(N.mlen == V.mlen)
    return z3.And(*cs)


@contract("tables.c", "tsk_node_table_append_columns", PARAMS)
def node_append_columns(c):
    self_ = c.arg("self")
    h, E = c.old, c.E
    c.requires(z3.Not(h.isnull(self_)))
    V = NodeView(h, self_)
    c.requires(V.rep())
    n, a = column_args(c, h)
    mo = a["metadata_offset"]
    n0, ml0 = V.n, V.mlen

    # the offsets written so far, indexed by the absolute row u (so that the quantifier is triggered by N.off[u])
    w64 = lambda x: z3.If(x <= 2 ** 64 - 1, x, x - 2 ** 64)      # the sum is formed in 64 bits; it cannot wrap
    # once expand_metadata has accepted metadata_length + offsets[num_rows]

    def inv_empty(s):
        N = NodeView(s, self_)
        return z3.And(0 <= s.j, s.j <= n, N.n == n0, N.mlen == ml0, N.T.max_rows >= n0 + n, N.rep(),
                      rows_prefix_equal(N, V, n0),
                      z3.ForAll([t_], z3.Implies(z3.And(n0 + 1 <= t_, t_ <= n0 + s.j), N.off[t_] == ml0)))

    def inv_offsets(s):
        N = NodeView(s, self_)
        off = h.arr(mo)
        return z3.And(0 <= s.j, s.j <= n, N.n == n0, N.mlen == ml0, N.T.max_rows >= n0 + n, N.rep(),
                      rows_prefix_equal(N, V, n0),
                      z3.ForAll([t_], z3.Implies(z3.And(n0 <= t_, t_ < n0 + s.j), N.off[t_] == w64(ml0 + off[t_ - n0]))))
    c.loop(0).invariant(inv_empty)
    c.loop(1).invariant(inv_offsets)

    def post():
        N = NodeView(c.new, self_)
        return z3.And(N.rep(),
                      z3.Implies(c.result == 0, z3.And(N.n == n0 + n, rows_prefix_equal(N, V, n0),
                                                       rows_appended(N, V, n0, h, a, n))),
                      z3.Implies(c.result != 0, z3.And(N.n == n0, N.mlen == ml0, rows_prefix_equal(N, V, n0))))
    c.ensures(post, "rows_appended_or_unchanged")
    c.ensures(lambda: z3.Implies(bad_param(h, a), c.result == E.TSK_ERR_BAD_PARAM_VALUE), "missing_column_rejected")
    c.ensures(lambda: z3.Implies(z3.And(c.result == 0), z3.And(z3.Not(bad_param(h, a)), offsets_ok(h, a, n))),
              "accepted_only_with_wellformed_offsets")
    c.ensures(lambda: z3.Or(c.result == 0, c.result == E.TSK_ERR_BAD_PARAM_VALUE, c.result == E.TSK_ERR_BAD_OFFSET,
                            c.result == E.TSK_ERR_NO_MEMORY, c.result == E.TSK_ERR_TABLE_OVERFLOW,
                            c.result == E.TSK_ERR_COLUMN_OVERFLOW), "codes")
    node_assigns(c, self_)


@contract("tables.c", "tsk_node_table_set_columns", PARAMS)
def node_set_columns(c):
    self_ = c.arg("self")
    h, E = c.old, c.E
    c.requires(z3.Not(h.isnull(self_)))
    V = NodeView(h, self_)
    c.requires(V.rep())
    n, a = column_args(c, h)

    class Empty:            # the view of the cleared table: no rows, no metadata bytes
        n = z3.IntVal(0)
        mlen = z3.IntVal(0)

    def post():
        N = NodeView(c.new, self_)
        return z3.And(N.rep(), z3.Implies(c.result == 0, z3.And(N.n == n, rows_appended(N, Empty, z3.IntVal(0), h, a, n))))
    c.ensures(post, "table_is_exactly_the_given_columns")
    c.ensures(lambda: z3.Implies(bad_param(h, a), c.result == E.TSK_ERR_BAD_PARAM_VALUE), "missing_column_rejected")
    c.ensures(lambda: z3.Or(c.result == 0, c.result == E.TSK_ERR_BAD_PARAM_VALUE, c.result == E.TSK_ERR_BAD_OFFSET,
                            c.result == E.TSK_ERR_NO_MEMORY, c.result == E.TSK_ERR_TABLE_OVERFLOW,
                            c.result == E.TSK_ERR_COLUMN_OVERFLOW), "codes")
    node_assigns(c, self_)


# ------------------------------------------------------------------------------------------ extend
cum = z3.Function("cum", z3.IntSort(), z3.IntSort())     # cum(t) = metadata bytes of the first t selected rows


@contract("tables.c", "tsk_node_table_extend", ["self", "other", "num_rows", "row_indexes", "TSK_UNUSED_options"], timeout=40)
def node_extend(c):
    """self := self ++ [other[row_indexes[t]] for t < num_rows] (row_indexes NULL: the first num_rows rows of other);
    every index is checked against other before it is used; on an error a prefix of those rows has been appended"""
    self_, other, n, rip = c.arg("self"), c.arg("other"), c.arg("num_rows"), c.arg("row_indexes")
    h, E = c.old, c.E
    c.requires(z3.And(z3.Not(h.isnull(self_)), z3.Not(h.isnull(other))))
    V, O = NodeView(h, self_), NodeView(h, other)
    c.requires(V.rep())
    c.requires(O.rep())
    if rip.region is not None:
        c.requires(z3.Or(h.isnull(rip), z3.And(rip.off == 0, h.len(rip) >= n)))
        ri = h.arr(rip)
        idx = lambda t: z3.If(h.isnull(rip), t, ri[t])
    else:
        idx = lambda t: t
    n0, ml0 = V.n, V.mlen
    oo = O.off
    inr = lambda r: z3.And(0 <= r, r < O.n)
    rlen = lambda r: oo[r + 1] - oo[r]
    # ghost: cumulative metadata length of the selected rows; recurrence + consequences by induction (as for psum)
    c.requires(z3.And(
        cum(0) == 0,
        z3.ForAll([t_], z3.Implies(z3.And(0 <= t_, t_ < n, inr(idx(t_))), cum(t_ + 1) == cum(t_) + rlen(idx(t_)))),
        z3.ForAll([t_], z3.Implies(z3.And(0 <= t_, t_ <= n), cum(t_) >= 0))), "ghost_cum")

    def sel_rows(N, upto):
        """rows n0 .. upto of N are the selected rows of other, in order: fixed columns"""
        cs = [z3.ForAll([t_], z3.Implies(z3.And(0 <= t_, t_ < upto - n0), inr(idx(t_))))]
        for col in NODE_FIXED:
            cs.append(z3.ForAll([t_], z3.Implies(z3.And(n0 <= t_, t_ < upto), N.col(col)[t_] == O.col(col)[idx(t_ - n0)])))
        return z3.And(*cs)

    def sel_offsets(N, upto):
        """... their metadata boundaries"""
        return z3.And(
            z3.ForAll([t_], z3.Implies(z3.And(n0 <= t_, t_ <= upto), N.off[t_] == ml0 + cum(t_ - n0))),
            # (redundant, helps instantiation) row t's bytes end where row t + 1 starts
            z3.ForAll([t_], z3.Implies(z3.And(n0 <= t_, t_ < upto), N.off[t_ + 1] == N.off[t_] + rlen(idx(t_ - n0)))))

    def sel_bytes(N, upto):
        """... and their metadata bytes"""
        return z3.ForAll([t_, b_], z3.Implies(z3.And(n0 <= t_, t_ < upto, 0 <= b_, b_ < rlen(idx(t_ - n0))),
                                              N.md[N.off[t_] + b_] == O.md[oo[idx(t_ - n0)] + b_]))

    def base(s):
        N = NodeView(s, self_)
        return z3.And(0 <= s.j, s.j <= n, N.n == n0 + s.j, N.rep(), rows_prefix_equal(N, V, n0))
    c.loop(0).invariant(base)
    c.loop(0).invariant(lambda s: sel_rows(NodeView(s, self_), n0 + s.j))
    c.loop(0).invariant(lambda s: sel_offsets(NodeView(s, self_), n0 + s.j))
    c.loop(0).invariant(lambda s: sel_bytes(NodeView(s, self_), n0 + s.j))

    def post_base():
        N = NodeView(c.new, self_)
        return z3.And(N.rep(), rows_prefix_equal(N, V, n0), N.n >= n0, N.n <= n0 + n, z3.Implies(c.result == 0, N.n == n0 + n))
    c.ensures(post_base, "earlier_rows_unchanged")
    c.ensures(lambda: sel_rows(NodeView(c.new, self_), NodeView(c.new, self_).n), "selected_rows_appended_in_order")
    c.ensures(lambda: sel_offsets(NodeView(c.new, self_), NodeView(c.new, self_).n), "with_their_metadata_boundaries")
    c.ensures(lambda: sel_bytes(NodeView(c.new, self_), NodeView(c.new, self_).n), "and_their_metadata_bytes")
    c.ensures(lambda: z3.Implies(c.result == E.TSK_ERR_NODE_OUT_OF_BOUNDS,
                                 z3.Exists([t_], z3.And(0 <= t_, t_ < n, z3.Not(inr(idx(t_)))))), "out_of_bounds_only_for_a_bad_index")
    c.ensures(lambda: z3.Implies(c.result == 0, z3.ForAll([t_], z3.Implies(z3.And(0 <= t_, t_ < n), inr(idx(t_))))),
              "accepted_only_if_every_index_in_range")
    c.ensures(lambda: z3.Or(c.result == 0, c.result == E.TSK_ERR_NODE_OUT_OF_BOUNDS, c.result == E.TSK_ERR_NO_MEMORY,
                            c.result == E.TSK_ERR_TABLE_OVERFLOW, c.result == E.TSK_ERR_COLUMN_OVERFLOW,
                            c.result == E.TSK_ERR_CANNOT_EXTEND_FROM_SELF), "codes")
    node_assigns(c, self_)


# ------------------------------------------------------------------------------------------ keep_rows
from .tables_rows import rank, newoff_of, rank_axioms, newoff_axioms      # noqa: E402

sel = z3.Function("sel", z3.IntSort(), z3.IntSort())      # ghost: sel(a) = the a-th kept row (inverse of rank on kept rows)


def sel_axioms(keep, n):
    """every new row index below rank(n) is the rank of exactly one kept row, in order (same induction as rank)"""
    a_, b2 = z3.Ints("a a2")
    return z3.And(
        z3.ForAll([a_], z3.Implies(z3.And(0 <= a_, a_ < rank(n)),
                                   z3.And(0 <= sel(a_), sel(a_) < n, keep[sel(a_)] != 0, rank(sel(a_)) == a_))),
        z3.ForAll([a_, b2], z3.Implies(z3.And(0 <= a_, a_ < b2, b2 < rank(n)), sel(a_) < sel(b2))))


@contract("tables.c", "tsk_node_table_keep_rows", ["self", "keep", "TSK_UNUSED_options", "id_map"], timeout=40)
def node_keep_rows(c):
    """the table becomes the sub-list of its kept rows, in order (every column, boundaries and bytes of the metadata);
    id_map (when given) maps every old row to its new index or NULL"""
    self_, keepp, mp = c.arg("self"), c.arg("keep"), c.arg("id_map")
    h = c.old
    c.requires(z3.Not(h.isnull(self_)))
    V = NodeView(h, self_)
    c.requires(V.rep())
    n = V.n
    c.requires(z3.Implies(n > 0, z3.And(z3.Not(h.isnull(keepp)), keepp.off == 0, h.len(keepp) >= n)))
    keep = h.arr(keepp)
    c.requires(rank_axioms(keep, n))
    c.requires(newoff_axioms(keep, V.off, n))
    newoff = newoff_of(V.off)
    if mp.region is not None:
        c.requires(z3.Or(h.isnull(mp), z3.And(mp.off == 0, h.len(mp) >= n)))

    def post():
        N = NodeView(c.new, self_)
        cs = [c.result == 0, N.n == rank(n), N.mlen == newoff(n), N.rep()]
        for col in NODE_FIXED:
            cs.append(z3.ForAll([i], z3.Implies(z3.And(0 <= i, i < n, keep[i] != 0), N.col(col)[rank(i)] == V.col(col)[i])))
        cs.append(z3.ForAll([i], z3.Implies(z3.And(0 <= i, i < n, keep[i] != 0), z3.And(
            N.off[rank(i)] == newoff(i),
            z3.ForAll([b_], z3.Implies(z3.And(0 <= b_, b_ < V.off[i + 1] - V.off[i]),
                                       N.md[newoff(i) + b_] == V.md[V.off[i] + b_]))))))
        return z3.And(*cs)
    c.ensures(post, "table_is_the_sublist_of_kept_rows")
    if mp.region is not None:
        c.ensures(lambda: z3.Implies(z3.Not(h.isnull(mp)), z3.ForAll([i], z3.Implies(
            z3.And(0 <= i, i < n), c.new.arr(mp)[i] == z3.If(keep[i] != 0, rank(i), -1)))), "id_map_is_rank_or_null")
        c.assigns(mp)
    node_assigns(c, self_)


@contract("tables.c", "tsk_mutation_table_keep_rows", ["self", "keep", "TSK_UNUSED_options", "ret_id_map"], timeout=40)
def mutation_keep_rows(c):
    """C13: keep_rows on the self-referencing mutation table: a kept row whose parent is out of range or dropped is
    rejected and the table is left as it was; otherwise the table becomes the sub-list of kept rows with every
    parent (pointing backwards or forwards) replaced by the new index of the row it names"""
    from .tables_rows_generic import View
    self_, keepp, mp = c.arg("self"), c.arg("keep"), c.arg("ret_id_map")
    h, E = c.old, c.E
    c.requires(z3.Not(h.isnull(self_)))
    V = View(h, self_, "mutations")
    c.requires(V.rep())
    n = V.n
    c.requires(z3.Implies(n > 0, z3.And(z3.Not(h.isnull(keepp)), keepp.off == 0, h.len(keepp) >= n)))
    keep = h.arr(keepp)
    c.requires(rank_axioms(keep, n))
    for r in V.ragged:
        c.requires(newoff_axioms(keep, V.off(r), n))
    if mp.region is not None:
        c.requires(z3.Or(h.isnull(mp), z3.And(mp.off == 0, h.len(mp) >= n)))
    par = V.col("parent")
    ok_row = lambda q: z3.Or(par[q] == -1, z3.And(0 <= par[q], par[q] < n, keep[par[q]] != 0))
    all_ok = z3.ForAll([i], z3.Implies(z3.And(0 <= i, i < n, keep[i] != 0), ok_row(i)))
    c.loop(0).invariant(lambda s: z3.And(0 <= s.j, s.j <= n, s.ret == 0,
                                         z3.ForAll([i], z3.Implies(z3.And(0 <= i, i < s.j, keep[i] != 0), ok_row(i))),
                                         z3.ForAll([i], z3.Implies(z3.And(0 <= i, i < n),
                                                                   s.arr(s.local("id_map"))[i] == z3.If(keep[i] != 0, rank(i), -1)))))

    def unchanged(N):
        cs = [N.n == V.n]
        for col in V.fixed:
            cs.append(z3.ForAll([i], z3.Implies(z3.And(0 <= i, i < n), N.col(col)[i] == V.col(col)[i])))
        for r in V.ragged:
            cs.append(N.length(r) == V.length(r))
            cs.append(z3.ForAll([i], z3.Implies(z3.And(0 <= i, i <= n), N.off(r)[i] == V.off(r)[i])))
            cs.append(z3.ForAll([b_], z3.Implies(z3.And(0 <= b_, b_ < V.length(r)), N.col(r)[b_] == V.col(r)[b_])))
        return z3.And(*cs)

    def sublist(N):
        cs = [N.n == rank(n), N.rep()]
        for col in V.fixed:
            if col == "parent":
                cs.append(z3.ForAll([i], z3.Implies(z3.And(0 <= i, i < n, keep[i] != 0),
                                                    N.col(col)[rank(i)] == z3.If(par[i] == -1, -1, rank(par[i])))))
            else:
                cs.append(z3.ForAll([i], z3.Implies(z3.And(0 <= i, i < n, keep[i] != 0), N.col(col)[rank(i)] == V.col(col)[i])))
        for r in V.ragged:
            no = newoff_of(V.off(r))
            cs.append(N.length(r) == no(n))
            cs.append(z3.ForAll([i], z3.Implies(z3.And(0 <= i, i < n, keep[i] != 0), z3.And(
                N.off(r)[rank(i)] == no(i),
                z3.ForAll([b_], z3.Implies(z3.And(0 <= b_, b_ < V.off(r)[i + 1] - V.off(r)[i]),
                                           N.col(r)[no(i) + b_] == V.col(r)[V.off(r)[i] + b_]))))))
        return z3.And(*cs)

    def post():
        N = View(c.new, self_, "mutations")
        return z3.And(z3.Implies(c.result == 0, z3.And(all_ok, sublist(N))),
                      z3.Implies(c.result != 0, z3.And(unchanged(N), N.rep())))
    c.ensures(post, "sublist_with_parents_remapped_or_unchanged")
    c.ensures(lambda: z3.Implies(z3.Not(all_ok), c.result != 0), "dangling_or_out_of_range_parent_rejected")
    c.ensures(lambda: z3.Or(c.result == 0, c.result == E.TSK_ERR_MUTATION_OUT_OF_BOUNDS,
                            c.result == E.TSK_ERR_KEEP_ROWS_MAP_TO_DELETED, c.result == E.TSK_ERR_NO_MEMORY), "codes")
    if mp.region is not None:
        c.ensures(lambda: z3.Implies(z3.And(z3.Not(h.isnull(mp)), c.result == 0), z3.ForAll([i], z3.Implies(
            z3.And(0 <= i, i < n), c.new.arr(mp)[i] == z3.If(keep[i] != 0, rank(i), -1)))), "id_map_is_rank_or_null")
        c.assigns(mp)
    from .tables_rows_generic import all_assigns
    all_assigns(c, "mutations", self_)


@contract("tables.c", "tsk_individual_table_keep_rows", ["self", "keep", "TSK_UNUSED_options", "ret_id_map"], timeout=40)
def individual_keep_rows(c):
    """C13: keep_rows on the individual table, whose ragged `parents` column refers to rows of the same table: a kept
    row with an out-of-range or dropped parent is rejected (table unchanged); otherwise the table is the sub-list of
    kept rows and every parent entry is the new index of the individual it names"""
    from .tables_rows_generic import View, all_assigns
    self_, keepp, mp = c.arg("self"), c.arg("keep"), c.arg("ret_id_map")
    h, E = c.old, c.E
    c.requires(z3.Not(h.isnull(self_)))
    V = View(h, self_, "individuals")
    c.requires(V.rep())
    n = V.n
    c.requires(z3.Implies(n > 0, z3.And(z3.Not(h.isnull(keepp)), keepp.off == 0, h.len(keepp) >= n)))
    keep = h.arr(keepp)
    c.requires(rank_axioms(keep, n))
    for r in V.ragged:
        c.requires(newoff_axioms(keep, V.off(r), n))
    if mp.region is not None:
        c.requires(z3.Or(h.isnull(mp), z3.And(mp.off == 0, h.len(mp) >= n)))
    po, pd = V.off("parents"), V.col("parents")
    ok_entry = lambda x: z3.Or(pd[x] == -1, z3.And(0 <= pd[x], pd[x] < n, keep[pd[x]] != 0))
    ok_row = lambda q: z3.ForAll([b_], z3.Implies(z3.And(po[q] <= b_, b_ < po[q + 1]), ok_entry(b_)))
    all_ok = z3.ForAll([i], z3.Implies(z3.And(0 <= i, i < n, keep[i] != 0), ok_row(i)))
    idm = lambda s: z3.ForAll([i], z3.Implies(z3.And(0 <= i, i < n),
                                              s.arr(s.local("id_map"))[i] == z3.If(keep[i] != 0, rank(i), -1)))
    c.loop(0).invariant(lambda s: z3.And(0 <= s.j, s.j <= n, s.ret == 0, idm(s),
                                         z3.ForAll([i], z3.Implies(z3.And(0 <= i, i < s.j, keep[i] != 0), ok_row(i)))))
    c.loop(1).invariant(lambda s: z3.And(0 <= s.j, s.j < n, keep[s.j] != 0, s.ret == 0, idm(s), po[s.j] <= s.k, s.k <= po[s.j + 1],
                                         z3.ForAll([i], z3.Implies(z3.And(0 <= i, i < s.j, keep[i] != 0), ok_row(i))),
                                         z3.ForAll([b_], z3.Implies(z3.And(po[s.j] <= b_, b_ < s.k), ok_entry(b_)))))

    def unchanged(N):
        cs = [N.n == V.n]
        for col in V.fixed:
            cs.append(z3.ForAll([i], z3.Implies(z3.And(0 <= i, i < n), N.col(col)[i] == V.col(col)[i])))
        for r in V.ragged:
            cs.append(N.length(r) == V.length(r))
            cs.append(z3.ForAll([i], z3.Implies(z3.And(0 <= i, i <= n), N.off(r)[i] == V.off(r)[i])))
            cs.append(z3.ForAll([b_], z3.Implies(z3.And(0 <= b_, b_ < V.length(r)), N.col(r)[b_] == V.col(r)[b_])))
        return z3.And(*cs)

    def sublist(N):
        cs = [N.n == rank(n), N.rep()]
        for col in V.fixed:
            cs.append(z3.ForAll([i], z3.Implies(z3.And(0 <= i, i < n, keep[i] != 0), N.col(col)[rank(i)] == V.col(col)[i])))
        for r in V.ragged:
            no = newoff_of(V.off(r))
            old = V.col(r)
            val = (lambda x: z3.If(x == -1, -1, rank(x))) if r == "parents" else (lambda x: x)
            cs.append(N.length(r) == no(n))
            cs.append(z3.ForAll([i], z3.Implies(z3.And(0 <= i, i < n, keep[i] != 0), z3.And(
                N.off(r)[rank(i)] == no(i),
                z3.ForAll([b_], z3.Implies(z3.And(0 <= b_, b_ < V.off(r)[i + 1] - V.off(r)[i]),
                                           N.col(r)[no(i) + b_] == val(old[V.off(r)[i] + b_])))))))
        return z3.And(*cs)

    def post():
        N = View(c.new, self_, "individuals")
        return z3.And(z3.Implies(c.result == 0, z3.And(all_ok, sublist(N))),
                      z3.Implies(c.result != 0, z3.And(unchanged(N), N.rep())))
    c.ensures(post, "sublist_with_parents_remapped_or_unchanged")
    c.ensures(lambda: z3.Implies(z3.Not(all_ok), c.result != 0), "dangling_or_out_of_range_parent_rejected")
    c.ensures(lambda: z3.Or(c.result == 0, c.result == E.TSK_ERR_INDIVIDUAL_OUT_OF_BOUNDS,
                            c.result == E.TSK_ERR_KEEP_ROWS_MAP_TO_DELETED, c.result == E.TSK_ERR_NO_MEMORY), "codes")
    if mp.region is not None:
        c.ensures(lambda: z3.Implies(z3.And(z3.Not(h.isnull(mp)), c.result == 0), z3.ForAll([i], z3.Implies(
            z3.And(0 <= i, i < n), c.new.arr(mp)[i] == z3.If(keep[i] != 0, rank(i), -1)))), "id_map_is_rank_or_null")
        c.assigns(mp)
    all_assigns(c, "individuals", self_)
