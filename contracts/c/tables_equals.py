"""C05: the judge of every round trip.  tsk_<T>_table_equals returns true exactly when the two tables are equal as
lists of rows (all fixed columns, every ragged column's boundaries and bytes, the metadata schema), each
TSK_CMP_IGNORE_* option removing exactly the columns it names; tsk_table_collection_equals is the conjunction over
the tables and top-level fields selected by the options."""
import z3
from vf.registry import contract
from .common import Tab, TC, i, j, flag, FIXED, RAGGED, TABLES

b_ = z3.Int("b")

PREFIX = {"nodes": "tsk_node_table", "edges": "tsk_edge_table", "sites": "tsk_site_table",
          "mutations": "tsk_mutation_table", "migrations": "tsk_migration_table",
          "individuals": "tsk_individual_table", "populations": "tsk_population_table",
          "provenances": "tsk_provenance_table"}
# ragged column -> the option under which it is NOT compared (None: always compared)
GATE = {"metadata": "TSK_CMP_IGNORE_METADATA", "timestamp": "TSK_CMP_IGNORE_TIMESTAMPS"}
HAS_SCHEMA = [t for t in TABLES if t != "provenances"]


def bytes_readable(h, p, ln):
    return z3.And(ln >= 0, z3.Implies(ln > 0, z3.And(z3.Not(h.isnull(p)), p.off == 0, h.len(p) >= ln)))


def buf_eq(h, pa, la, pb, lb):
    """two (pointer, length) byte strings are equal"""
    if pa.region is None or pb.region is None:
        return z3.And(la == lb, la == 0)
    A, B = h.arr(pa), h.arr(pb)
    return z3.And(la == lb, z3.ForAll([b_], z3.Implies(z3.And(0 <= b_, b_ < la), A[pa.off + b_] == B[pb.off + b_])))


def table_pre(c, h, name, A, B, pa, pb):
    c.requires(z3.And(z3.Not(h.isnull(pa)), z3.Not(h.isnull(pb))))
    c.requires(A.rep())
    c.requires(B.rep())
    if name == "edges":
        # both edge tables were created with metadata enabled (the default); TSK_TABLE_NO_METADATA is not covered
        c.requires(z3.And(z3.Not(flag(h.get(pa, "options"), 1 << 2)), z3.Not(flag(h.get(pb, "options"), 1 << 2))))
    if name == "individuals":
        # element size > 1: the byte size of the column is representable (no real buffer holds 2^57 elements)
        for T_ in (A, B):
            c.requires(z3.And(T_.scalar("location_length") <= 2 ** 57, T_.scalar("parents_length") <= 2 ** 57))
    if name in HAS_SCHEMA:
        for p in (pa, pb):
            c.requires(bytes_readable(h, h.get(p, "metadata_schema"), h.get(p, "metadata_schema_length")))


def table_eq(h, E, name, A, B, pa, pb, options):
    """the two tables, seen as lists of rows (+ schema), are equal on everything `options` does not ignore"""
    n = A.n
    cs = [A.n == B.n]
    for col in FIXED[name]:
        cs.append(z3.ForAll([j], z3.Implies(z3.And(0 <= j, j < n), A.col(col)[j] == B.col(col)[j])))
    for r in RAGGED[name]:
        oa, ob = A.col(r + "_offset"), B.col(r + "_offset")
        eq = z3.And(A.scalar(r + "_length") == B.scalar(r + "_length"),
                    z3.ForAll([j], z3.Implies(z3.And(0 <= j, j <= n), oa[j] == ob[j])),
                    z3.ForAll([b_], z3.Implies(z3.And(0 <= b_, b_ < A.scalar(r + "_length")), A.col(r)[b_] == B.col(r)[b_])))
        if r == "metadata" and name in HAS_SCHEMA:
            eq = z3.And(eq, buf_eq(h, h.get(pa, "metadata_schema"), h.get(pa, "metadata_schema_length"),
                                   h.get(pb, "metadata_schema"), h.get(pb, "metadata_schema_length")))
        g = GATE.get(r)
        cs.append(eq if g is None else z3.Or(flag(options, getattr(E, g)), eq))
    return z3.And(*cs)


def make(name):
    @contract("tables.c", PREFIX[name] + "_equals", ["self", "other", "options"])
    def equals(c):
        pa, pb, options = c.arg("self"), c.arg("other"), c.arg("options")
        h, E = c.old, c.E
        A, B = Tab(h, pa, name), Tab(h, pb, name)
        table_pre(c, h, name, A, B, pa, pb)
        c.ensures(lambda: (c.result != 0) == table_eq(h, E, name, A, B, pa, pb, options), "true_iff_equal_lists_of_rows")
        c.assigns()


for _n in TABLES:
    make(_n)


def refseq_eq(h, E, pa, pb, options):
    g = lambda p, f: h.get(p, f)
    cs = [buf_eq(h, g(pa, "data"), g(pa, "data_length"), g(pb, "data"), g(pb, "data_length")),
          buf_eq(h, g(pa, "url"), g(pa, "url_length"), g(pb, "url"), g(pb, "url_length")),
          z3.Or(flag(options, E.TSK_CMP_IGNORE_METADATA), z3.And(
              buf_eq(h, g(pa, "metadata"), g(pa, "metadata_length"), g(pb, "metadata"), g(pb, "metadata_length")),
              buf_eq(h, g(pa, "metadata_schema"), g(pa, "metadata_schema_length"),
                     g(pb, "metadata_schema"), g(pb, "metadata_schema_length"))))]
    return z3.And(*cs)


def refseq_pre(c, h, pa, pb):
    for p in (pa, pb):
        for f in ("data", "url", "metadata", "metadata_schema"):
            c.requires(bytes_readable(h, h.get(p, f), h.get(p, f + "_length")))


@contract("tables.c", "tsk_reference_sequence_equals", ["self", "other", "options"])
def reference_sequence_equals(c):
    pa, pb, options = c.arg("self"), c.arg("other"), c.arg("options")
    h, E = c.old, c.E
    c.requires(z3.And(z3.Not(h.isnull(pa)), z3.Not(h.isnull(pb))))
    refseq_pre(c, h, pa, pb)
    c.ensures(lambda: (c.result != 0) == refseq_eq(h, E, pa, pb, options), "true_iff_equal_fields")
    c.assigns()


@contract("tables.c", "tsk_table_collection_equals", ["self", "other", "options"])
def table_collection_equals(c):
    from vf.cvc import d_eq
    pa, pb, options = c.arg("self"), c.arg("other"), c.arg("options")
    h, E = c.old, c.E
    c.requires(z3.And(z3.Not(h.isnull(pa)), z3.Not(h.isnull(pb))))
    SA, SB = TC(h, pa), TC(h, pb)
    for name in TABLES:
        table_pre(c, h, name, getattr(SA, name), getattr(SB, name), h.sub(pa, name), h.sub(pb, name))
    ra, rb = h.sub(pa, "reference_sequence"), h.sub(pb, "reference_sequence")
    refseq_pre(c, h, ra, rb)
    for p in (pa, pb):
        for f in ("time_units", "metadata", "metadata_schema"):
            c.requires(bytes_readable(h, h.get(p, f), h.get(p, f + "_length")))

    def spec():
        g = lambda p, f: h.get(p, f)
        ig = lambda nm: flag(options, getattr(E, nm))
        cs = [d_eq(SA.L, SB.L),
              buf_eq(h, g(pa, "time_units"), g(pa, "time_units_length"), g(pb, "time_units"), g(pb, "time_units_length"))]
        tabs = [table_eq(h, E, name, getattr(SA, name), getattr(SB, name), h.sub(pa, name), h.sub(pb, name), options)
                for name in TABLES if name != "provenances"]
        prov = table_eq(h, E, "provenances", SA.provenances, SB.provenances, h.sub(pa, "provenances"),
                        h.sub(pb, "provenances"), options)
        cs.append(z3.Or(ig("TSK_CMP_IGNORE_TABLES"), z3.And(*tabs)))
        cs.append(z3.Or(ig("TSK_CMP_IGNORE_TABLES"), ig("TSK_CMP_IGNORE_PROVENANCE"), prov))
        cs.append(z3.Or(ig("TSK_CMP_IGNORE_METADATA"), ig("TSK_CMP_IGNORE_TS_METADATA"), z3.And(
            buf_eq(h, g(pa, "metadata"), g(pa, "metadata_length"), g(pb, "metadata"), g(pb, "metadata_length")),
            buf_eq(h, g(pa, "metadata_schema"), g(pa, "metadata_schema_length"),
                   g(pb, "metadata_schema"), g(pb, "metadata_schema_length")))))
        cs.append(z3.Or(ig("TSK_CMP_IGNORE_REFERENCE_SEQUENCE"), refseq_eq(h, E, ra, rb, options)))
        return z3.And(*cs)
    c.ensures(lambda: (c.result != 0) == spec(), "true_iff_everything_not_ignored_is_equal")
    c.assigns()
