"""C13: tsk_<T>_table_extend for the seven tables other than nodes, from one template: self := self ++ [other[idx(t)]
for t < num_rows] (idx = row_indexes, or the identity when NULL), every index checked against `other` first; on an
error a prefix of the selected rows has been appended.  One ghost cumulative-length function per ragged column."""
import z3
from vf.registry import contract
from .common import i, j, k
from .tables_rows_generic import View, SPEC, prefix_equal, all_assigns, WIDE, wide_ok

b_ = z3.Int("b")
t_ = z3.Int("t")
OOB = {"edges": "TSK_ERR_EDGE_OUT_OF_BOUNDS", "sites": "TSK_ERR_SITE_OUT_OF_BOUNDS",
       "mutations": "TSK_ERR_MUTATION_OUT_OF_BOUNDS", "migrations": "TSK_ERR_MIGRATION_OUT_OF_BOUNDS",
       "populations": "TSK_ERR_POPULATION_OUT_OF_BOUNDS", "provenances": "TSK_ERR_PROVENANCE_OUT_OF_BOUNDS",
       "individuals": "TSK_ERR_INDIVIDUAL_OUT_OF_BOUNDS"}


def make(name):
    prefix, fixed, ragged = SPEC[name]
    cums = {r: z3.Function("cum<%s.%s>" % (name, r), z3.IntSort(), z3.IntSort()) for (r, _d, _l) in ragged}

    @contract("tables.c", prefix + "_extend", ["self", "other", "num_rows", "row_indexes", "TSK_UNUSED_options"], timeout=40)
    def extend(c):
        self_, other, n, rip = c.arg("self"), c.arg("other"), c.arg("num_rows"), c.arg("row_indexes")
        h, E = c.old, c.E
        c.requires(z3.And(z3.Not(h.isnull(self_)), z3.Not(h.isnull(other))))
        V, O = View(h, self_, name), View(h, other, name)
        c.requires(V.rep())
        c.requires(O.rep())
        if rip.region is not None:
            c.requires(z3.Or(h.isnull(rip), z3.And(rip.off == 0, h.len(rip) >= n)))
            ri = h.arr(rip)
            idx = lambda t: z3.If(h.isnull(rip), t, ri[t])
        else:
            idx = lambda t: t
        n0 = V.n
        inr = lambda r: z3.And(0 <= r, r < O.n)
        for r in V.ragged:
            oo, cum = O.off(r), cums[r]
            c.requires(z3.And(
                cum(0) == 0,
                z3.ForAll([t_], z3.Implies(z3.And(0 <= t_, t_ < n, inr(idx(t_))), cum(t_ + 1) == cum(t_) + oo[idx(t_) + 1] - oo[idx(t_)])),
                z3.ForAll([t_], z3.Implies(z3.And(0 <= t_, t_ <= n), cum(t_) >= 0))), "ghost_cum_" + r)
            if r in WIDE:
                # wide columns: both tables together stay below 2^57 elements (byte sizes representable)
                c.requires(wide_ok(V, r, O.length(r)))
                c.requires(z3.ForAll([t_], z3.Implies(z3.And(0 <= t_, t_ <= n), V.length(r) + cum(t_) <= 2 ** 57)))

        def sel_rows(N, upto):
            cs = [z3.ForAll([t_], z3.Implies(z3.And(0 <= t_, t_ < upto - n0), inr(idx(t_))))]
            for col in V.fixed:
                cs.append(z3.ForAll([t_], z3.Implies(z3.And(n0 <= t_, t_ < upto), N.col(col)[t_] == O.col(col)[idx(t_ - n0)])))
            return z3.And(*cs)

        def sel_offsets(N, upto, r):
            oo, cum, l0 = O.off(r), cums[r], V.length(r)
            return z3.And(
                z3.ForAll([t_], z3.Implies(z3.And(n0 <= t_, t_ <= upto), N.off(r)[t_] == l0 + cum(t_ - n0))),
                z3.ForAll([t_], z3.Implies(z3.And(n0 <= t_, t_ < upto), N.off(r)[t_ + 1] == N.off(r)[t_] + oo[idx(t_ - n0) + 1] - oo[idx(t_ - n0)])))

        def sel_bytes(N, upto, r):
            oo = O.off(r)
            return z3.ForAll([t_, b_], z3.Implies(z3.And(n0 <= t_, t_ < upto, 0 <= b_, b_ < oo[idx(t_ - n0) + 1] - oo[idx(t_ - n0)]),
                                                  N.col(r)[N.off(r)[t_] + b_] == O.col(r)[oo[idx(t_ - n0)] + b_]))

        def base(s):
            N = View(s, self_, name)
            return z3.And(0 <= s.j, s.j <= n, N.n == n0 + s.j, N.rep(), prefix_equal(N, V, n0))
        c.loop(0).invariant(base)
        c.loop(0).invariant(lambda s: sel_rows(View(s, self_, name), n0 + s.j))
        for r in V.ragged:
            c.loop(0).invariant(lambda s, r=r: sel_offsets(View(s, self_, name), n0 + s.j, r))
            c.loop(0).invariant(lambda s, r=r: sel_bytes(View(s, self_, name), n0 + s.j, r))

        def post_base():
            N = View(c.new, self_, name)
            return z3.And(N.rep(), prefix_equal(N, V, n0), N.n >= n0, N.n <= n0 + n, z3.Implies(c.result == 0, N.n == n0 + n))
        c.ensures(post_base, "earlier_rows_unchanged")
        c.ensures(lambda: sel_rows(View(c.new, self_, name), View(c.new, self_, name).n), "selected_rows_appended_in_order")
        for r in V.ragged:
            c.ensures(lambda r=r: sel_offsets(View(c.new, self_, name), View(c.new, self_, name).n, r), "with_the_boundaries_of_" + r)
            c.ensures(lambda r=r: sel_bytes(View(c.new, self_, name), View(c.new, self_, name).n, r), "and_the_contents_of_" + r)
        c.ensures(lambda: z3.Implies(c.result == getattr(E, OOB[name]),
                                     z3.Exists([t_], z3.And(0 <= t_, t_ < n, z3.Not(inr(idx(t_)))))), "out_of_bounds_only_for_a_bad_index")
        c.ensures(lambda: z3.Implies(c.result == 0, z3.ForAll([t_], z3.Implies(z3.And(0 <= t_, t_ < n), inr(idx(t_))))),
                  "accepted_only_if_every_index_in_range")
        c.ensures(lambda: z3.Or(c.result == 0, c.result == getattr(E, OOB[name]), c.result == E.TSK_ERR_NO_MEMORY,
                                c.result == E.TSK_ERR_TABLE_OVERFLOW, c.result == E.TSK_ERR_COLUMN_OVERFLOW,
                                c.result == E.TSK_ERR_CANNOT_EXTEND_FROM_SELF, c.result == E.TSK_ERR_METADATA_DISABLED), "codes")
        all_assigns(c, name, self_)


# tables with ONE ragged column: the proof goes through as for the node table.  For the tables with two or three
# ragged columns (sites, mutations, provenances, individuals) the preservation of the byte clause of one column was left
# open by z3 and cvc5 within the budgets (the same template; nothing refuted): not registered, hence not claimed.
# (the migration table - six fixed columns - goes through on an idle machine but its byte clause needed the second
# look or stayed open when the machine was busy: an unstable proof is not worth a flaky check, so it is not registered)
for _n in ("edges", "populations"):
    make(_n)
