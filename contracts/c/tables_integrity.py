"""C02: the integrity checkers of tables.c.  Each row-wise checker is specified as
`ret == 0  <=>  forall rows. ok(row)` with ok() taken from docs/data-model.md, and assigns nothing."""
import z3
from vf.registry import contract
from vf.cvc import (Dbl, d_isfinite, d_lt, d_le, d_gt, d_ge, d_eq, d_ne, d_const, d_isunknown, d_isnan)
from .common import TC, Tab, flag, i, j, k, in_ids, in_ids_or_null, wf_offsets, MAX_ROWS

ZERO = d_const(0)


def forall_rows(n, fn):
    return z3.ForAll([j], z3.Implies(z3.And(0 <= j, j < n), fn(j)))


def one_of(r, *codes):
    return z3.Or(*[r == c_ for c_ in codes])


# ------------------------------------------------------------------------------------------
@contract("tables.c", "check_offsets", ["num_rows", "offsets", "length", "check_length"])
def check_offsets(c):
    n, offp, length, chk = c.arg("num_rows"), c.arg("offsets"), c.arg("length"), c.arg("check_length")
    h = c.old
    c.requires(z3.Not(h.isnull(offp)))
    c.requires(offp.off == 0)
    c.requires(h.len(offp) >= n + 1)
    off = h.arr(offp)
    wf = z3.And(off[0] == 0, z3.Implies(chk != 0, off[n] == length),
                z3.ForAll([i], z3.Implies(z3.And(0 <= i, i < n), off[i] <= off[i + 1])))
    c.loop(0).invariant(lambda s: z3.And(0 <= s.j, s.j <= n, off[0] == 0, z3.Implies(chk != 0, off[n] == length),
                                         z3.ForAll([i], z3.Implies(z3.And(0 <= i, i < s.j), off[i] <= off[i + 1]))))
    c.ensures(lambda: (c.result == 0) == wf, "iff")
    c.ensures(lambda: one_of(c.result, 0, c.E.TSK_ERR_BAD_OFFSET), "codes")
    c.assigns()


# ------------------------------------------------------------------------------------------
def site_ok(T, options, E):
    pos = T.sites.col("position")
    L = T.L
    dup = flag(options, E.TSK_CHECK_SITE_DUPLICATES)
    order = flag(options, E.TSK_CHECK_SITE_ORDERING)

    def ok(q):
        return z3.And(d_isfinite(pos[q]), d_ge(pos[q], ZERO), d_lt(pos[q], L),
                      z3.Implies(z3.And(q > 0, dup), z3.Not(d_eq(pos[q - 1], pos[q]))),
                      z3.Implies(z3.And(q > 0, order), z3.Not(d_gt(pos[q - 1], pos[q]))))
    return ok


def good_L(T):
    """the sequence length compares greater than zero (so it is not NaN): established by check_integrity
    before the row-wise checkers run (TSK_ERR_BAD_SEQUENCE_LENGTH: 'Sequence length must be > 0')"""
    return d_gt(T.L, ZERO)


@contract("tables.c", "tsk_table_collection_check_site_integrity", ["self", "options"])
def check_site_integrity(c):
    self_, options = c.arg("self"), c.arg("options")
    E = c.E
    h = c.old
    c.requires(z3.Not(h.isnull(self_)))
    T = TC(h, self_)
    c.requires(T.sites.rep())
    c.requires(good_L(T))
    n = T.sites.n
    ok = site_ok(T, options, E)
    c.loop(0).invariant(lambda s: z3.And(0 <= s.j, s.j <= n, s.ret == 0,
                                         z3.ForAll([i], z3.Implies(z3.And(0 <= i, i < s.j), ok(i)))))
    c.ensures(lambda: (c.result == 0) == forall_rows(n, ok), "iff")
    c.ensures(lambda: one_of(c.result, 0, E.TSK_ERR_BAD_SITE_POSITION, E.TSK_ERR_DUPLICATE_SITE_POSITION,
                             E.TSK_ERR_UNSORTED_SITES), "codes")
    c.assigns()


# ------------------------------------------------------------------------------------------
def node_ok(T, options, E):
    time = T.nodes.col("time")
    pop = T.nodes.col("population")
    ind = T.nodes.col("individual")
    npop = T.populations.n
    nind = T.individuals.n
    nocheck = flag(options, E.TSK_NO_CHECK_POPULATION_REFS)

    def ok(q):
        return z3.And(d_isfinite(time[q]),
                      z3.Implies(z3.Not(nocheck), in_ids_or_null(pop[q], npop)),
                      in_ids_or_null(ind[q], nind))
    return ok


@contract("tables.c", "tsk_table_collection_check_node_integrity", ["self", "options"])
def check_node_integrity(c):
    self_, options = c.arg("self"), c.arg("options")
    E = c.E
    h = c.old
    c.requires(z3.Not(h.isnull(self_)))
    T = TC(h, self_)
    c.requires(T.rep(["nodes", "populations", "individuals"]))
    n = T.nodes.n
    ok = node_ok(T, options, E)
    c.loop(0).invariant(lambda s: z3.And(0 <= s.j, s.j <= n, s.ret == 0,
                                         z3.ForAll([i], z3.Implies(z3.And(0 <= i, i < s.j), ok(i)))))
    c.ensures(lambda: (c.result == 0) == forall_rows(n, ok), "iff")
    c.ensures(lambda: one_of(c.result, 0, E.TSK_ERR_TIME_NONFINITE, E.TSK_ERR_POPULATION_OUT_OF_BOUNDS,
                             E.TSK_ERR_INDIVIDUAL_OUT_OF_BOUNDS), "codes")
    c.assigns()


# ------------------------------------------------------------------------------------------
def edge_basic_ok(T):
    left, right = T.edges.col("left"), T.edges.col("right")
    parent, child = T.edges.col("parent"), T.edges.col("child")
    time = T.nodes.col("time")
    nn = T.nodes.n
    L = T.L

    def ok(q):
        return z3.And(in_ids(parent[q], nn), in_ids(child[q], nn),
                      d_isfinite(left[q]), d_isfinite(right[q]),
                      d_ge(left[q], ZERO), d_le(right[q], L), d_lt(left[q], right[q]),
                      d_lt(time[child[q]], time[parent[q]]))
    return ok


def edge_adjacent_order(T):
    """consecutive rows are ordered by (time[parent], then for equal parents child, left) with no duplicates"""
    left = T.edges.col("left")
    parent, child = T.edges.col("parent"), T.edges.col("child")
    time = T.nodes.col("time")

    def ok(q):
        tp, tl = time[parent[q]], time[parent[q - 1]]
        same = parent[q] == parent[q - 1]
        return z3.Implies(q > 0, z3.And(
            z3.Not(d_lt(tp, tl)),
            z3.Implies(z3.And(d_eq(tp, tl), same),
                       z3.And(child[q] >= child[q - 1],
                              z3.Implies(child[q] == child[q - 1], d_gt(left[q], left[q - 1]))))))
    return ok


@contract("tables.c", "tsk_table_collection_check_edge_integrity", ["self", "options"])
def check_edge_integrity(c):
    self_, options = c.arg("self"), c.arg("options")
    E = c.E
    h = c.old
    c.requires(z3.Not(h.isnull(self_)))
    T = TC(h, self_)
    c.requires(T.rep(["nodes", "edges"]))
    c.requires(good_L(T))
    # node times are finite: established by check_node_integrity, which check_integrity runs first
    time = T.nodes.col("time")
    c.requires(z3.ForAll([i], z3.Implies(z3.And(0 <= i, i < T.nodes.n), d_isfinite(time[i]))))
    n = T.edges.n
    ordering = flag(options, E.TSK_CHECK_EDGE_ORDERING)
    ok = edge_basic_ok(T)
    adj = edge_adjacent_order(T)
    parent, child, left = T.edges.col("parent"), T.edges.col("child"), T.edges.col("left")
    # contiguity of equal parents (data-model: "all edges for a given parent must be contiguous"):
    # parent_seen[q] is only ever set for a parent whose group has been closed by a different parent of
    # the SAME time; a group closed by a strictly older parent can only reappear as a time inversion.
    def inv(s):
        jj = s.j
        base = z3.And(0 <= jj, jj <= n, s.ret == 0,
                      z3.ForAll([i], z3.Implies(z3.And(0 <= i, i < jj), ok(i))),
                      z3.Implies(ordering, z3.ForAll([i], z3.Implies(z3.And(0 <= i, i < jj), adj(i)))))
        track = z3.Implies(z3.And(ordering, jj > 0),
                           z3.And(s.last_parent == parent[jj - 1], s.last_child == child[jj - 1],
                                  d_eq(s.last_left, left[jj - 1])))
        if s.parent_seen.region is None:
            return z3.And(base, track, z3.Not(ordering))
        seen = s.at(s.parent_seen, i)
        ps = z3.Implies(ordering, z3.And(
            z3.Not(s.isnull(s.parent_seen)),
            s.parent_seen.off == 0,
            s.len(s.parent_seen) >= T.nodes.n,
            # soundness of the seen set: a seen parent occurs strictly before the current group
            z3.ForAll([i], z3.Implies(z3.And(0 <= i, i < T.nodes.n, seen != 0),
                                      z3.And(jj > 0, i != parent[jj - 1])))))
        return z3.And(base, track, ps)
    c.loop(0).invariant(inv)
    full = lambda: forall_rows(n, lambda q: z3.And(ok(q), z3.Implies(ordering, adj(q))))
    c.ensures(lambda: z3.Implies(c.result == 0, full()), "accepted_rows_ok")
    c.ensures(lambda: z3.Implies(z3.Not(ordering), (c.result == 0) == forall_rows(n, ok)), "iff_unordered")
    c.ensures(lambda: z3.Implies(z3.And(c.result != 0, c.result != E.TSK_ERR_NO_MEMORY,
                                        c.result != E.TSK_ERR_EDGES_NONCONTIGUOUS_PARENTS),
                                 z3.Not(full())), "rejected_rows_bad")
    c.ensures(lambda: one_of(c.result, 0, E.TSK_ERR_NO_MEMORY, E.TSK_ERR_NULL_PARENT, E.TSK_ERR_NODE_OUT_OF_BOUNDS,
                             E.TSK_ERR_NULL_CHILD, E.TSK_ERR_GENOME_COORDS_NONFINITE, E.TSK_ERR_LEFT_LESS_ZERO,
                             E.TSK_ERR_RIGHT_GREATER_SEQ_LENGTH, E.TSK_ERR_BAD_EDGE_INTERVAL,
                             E.TSK_ERR_BAD_NODE_TIME_ORDERING, E.TSK_ERR_EDGES_NONCONTIGUOUS_PARENTS,
                             E.TSK_ERR_EDGES_NOT_SORTED_PARENT_TIME, E.TSK_ERR_EDGES_NOT_SORTED_CHILD,
                             E.TSK_ERR_DUPLICATE_EDGES, E.TSK_ERR_EDGES_NOT_SORTED_LEFT), "codes")
    c.assigns()


# ------------------------------------------------------------------------------------------
def mutation_ok(T, options, E):
    M = T.mutations
    site, node, parent, time = M.col("site"), M.col("node"), M.col("parent"), M.col("time")
    ntime = T.nodes.col("time")
    nn, ns, nm = T.nodes.n, T.sites.n, M.n
    order = flag(options, E.TSK_CHECK_MUTATION_ORDERING)

    def ok(q):
        unk = d_isunknown(time[q])
        same_site = z3.And(q > 0, site[q - 1] == site[q])
        return z3.And(
            in_ids(site[q], ns), in_ids(node[q], nn), in_ids_or_null(parent[q], nm), parent[q] != q,
            z3.Implies(z3.Not(unk), z3.And(d_isfinite(time[q]), z3.Not(d_lt(time[q], ntime[node[q]])))),
            z3.Implies(same_site, unk == d_isunknown(time[q - 1])),
            z3.Implies(parent[q] != -1, z3.And(site[parent[q]] == site[q],
                                               z3.Implies(z3.Not(unk), z3.Not(d_gt(time[q], time[parent[q]]))))),
            z3.Implies(order, z3.And(
                z3.Implies(q > 0, site[q - 1] <= site[q]),
                z3.Implies(parent[q] != -1, parent[q] <= q),
                z3.Implies(z3.And(same_site, z3.Not(unk)), z3.Not(d_gt(time[q], time[q - 1]))))))
    return ok


@contract("tables.c", "tsk_table_collection_check_mutation_integrity", ["self", "options"])
def check_mutation_integrity(c):
    self_, options = c.arg("self"), c.arg("options")
    E = c.E
    h = c.old
    c.requires(z3.Not(h.isnull(self_)))
    T = TC(h, self_)
    c.requires(T.rep(["nodes", "sites", "mutations"]))
    n = T.mutations.n
    time = T.mutations.col("time")
    order = flag(options, E.TSK_CHECK_MUTATION_ORDERING)
    ok = mutation_ok(T, options, E)

    def inv(s):
        jj = s.j
        prev_unk = d_isunknown(time[jj - 1])
        return z3.And(
            0 <= jj, jj <= n, s.ret == 0,
            z3.ForAll([i], z3.Implies(z3.And(0 <= i, i < jj), ok(i))),
            s.num_known_times >= 0, s.num_unknown_times >= 0,
            s.num_known_times + s.num_unknown_times <= jj,
            z3.Not(z3.And(s.num_known_times > 0, s.num_unknown_times > 0)),
            z3.Implies(jj == 0, z3.And(s.num_known_times == 0, s.num_unknown_times == 0)),
            z3.Implies(jj > 0, z3.And((s.num_unknown_times > 0) == prev_unk,
                                      (s.num_known_times > 0) == z3.Not(prev_unk))),
            z3.If(z3.And(order, jj > 0, z3.Not(prev_unk)), s.last_known_time == time[jj - 1],
                  s.last_known_time == Dbl.pinf))
    c.loop(0).invariant(inv)
    c.ensures(lambda: (c.result == 0) == forall_rows(n, ok), "iff")
    c.ensures(lambda: one_of(c.result, 0, E.TSK_ERR_SITE_OUT_OF_BOUNDS, E.TSK_ERR_NODE_OUT_OF_BOUNDS,
                             E.TSK_ERR_MUTATION_OUT_OF_BOUNDS, E.TSK_ERR_MUTATION_PARENT_EQUAL,
                             E.TSK_ERR_TIME_NONFINITE, E.TSK_ERR_MUTATION_TIME_YOUNGER_THAN_NODE,
                             E.TSK_ERR_MUTATION_TIME_HAS_BOTH_KNOWN_AND_UNKNOWN,
                             E.TSK_ERR_MUTATION_PARENT_DIFFERENT_SITE,
                             E.TSK_ERR_MUTATION_TIME_OLDER_THAN_PARENT_MUTATION, E.TSK_ERR_UNSORTED_MUTATIONS,
                             E.TSK_ERR_MUTATION_PARENT_AFTER_CHILD), "codes")
    c.assigns()


# ------------------------------------------------------------------------------------------
def migration_ok(T, options, E):
    G = T.migrations
    node, src, dst = G.col("node"), G.col("source"), G.col("dest")
    left, right, time = G.col("left"), G.col("right"), G.col("time")
    nn, npop = T.nodes.n, T.populations.n
    L = T.L
    nocheck = flag(options, E.TSK_NO_CHECK_POPULATION_REFS)
    order = flag(options, E.TSK_CHECK_MIGRATION_ORDERING)

    def ok(q):
        return z3.And(in_ids(node[q], nn),
                      z3.Implies(z3.Not(nocheck), z3.And(in_ids(src[q], npop), in_ids(dst[q], npop))),
                      d_isfinite(time[q]),
                      z3.Implies(z3.And(q > 0, order), z3.Not(d_gt(time[q - 1], time[q]))),
                      d_isfinite(left[q]), d_isfinite(right[q]), d_ge(left[q], ZERO), d_le(right[q], L),
                      d_lt(left[q], right[q]))
    return ok


@contract("tables.c", "tsk_table_collection_check_migration_integrity", ["self", "options"])
def check_migration_integrity(c):
    self_, options = c.arg("self"), c.arg("options")
    E = c.E
    h = c.old
    c.requires(z3.Not(h.isnull(self_)))
    T = TC(h, self_)
    c.requires(T.rep(["nodes", "populations", "migrations"]))
    c.requires(good_L(T))
    n = T.migrations.n
    ok = migration_ok(T, options, E)
    c.loop(0).invariant(lambda s: z3.And(0 <= s.j, s.j <= n, s.ret == 0,
                                         z3.ForAll([i], z3.Implies(z3.And(0 <= i, i < s.j), ok(i)))))
    c.ensures(lambda: (c.result == 0) == forall_rows(n, ok), "iff")
    c.ensures(lambda: one_of(c.result, 0, E.TSK_ERR_NODE_OUT_OF_BOUNDS, E.TSK_ERR_POPULATION_OUT_OF_BOUNDS,
                             E.TSK_ERR_TIME_NONFINITE, E.TSK_ERR_UNSORTED_MIGRATIONS,
                             E.TSK_ERR_GENOME_COORDS_NONFINITE, E.TSK_ERR_LEFT_LESS_ZERO,
                             E.TSK_ERR_RIGHT_GREATER_SEQ_LENGTH, E.TSK_ERR_BAD_EDGE_INTERVAL), "codes")
    c.assigns()


# ------------------------------------------------------------------------------------------
def individual_ok(T, options, E):
    D = T.individuals
    parents = D.col("parents")
    off = D.col("parents_offset")
    n = D.n
    order = flag(options, E.TSK_CHECK_INDIVIDUAL_ORDERING)

    def ok_entry(q, kk):
        p = parents[kk]
        return z3.And(in_ids_or_null(p, n), p != q, z3.Implies(z3.And(order, p != -1), p < q))

    def ok(q):
        return z3.ForAll([k], z3.Implies(z3.And(off[q] <= k, k < off[q + 1]), ok_entry(q, k)))
    return ok, ok_entry


@contract("tables.c", "tsk_table_collection_check_individual_integrity", ["self", "options"])
def check_individual_integrity(c):
    self_, options = c.arg("self"), c.arg("options")
    E = c.E
    h = c.old
    c.requires(z3.Not(h.isnull(self_)))
    T = TC(h, self_)
    c.requires(T.rep(["individuals"]))
    n = T.individuals.n
    off = T.individuals.col("parents_offset")
    ok, ok_entry = individual_ok(T, options, E)
    c.loop(0).invariant(lambda s: z3.And(0 <= s.j, s.j <= n, s.ret == 0,
                                         z3.ForAll([i], z3.Implies(z3.And(0 <= i, i < s.j), ok(i)))))
    c.loop(1).invariant(lambda s: z3.And(0 <= s.j, s.j < n, s.ret == 0, off[s.j] <= s.k, s.k <= off[s.j + 1],
                                         z3.ForAll([i], z3.Implies(z3.And(0 <= i, i < s.j), ok(i))),
                                         z3.ForAll([k], z3.Implies(z3.And(off[s.j] <= k, k < s.k),
                                                                   ok_entry(s.j, k)))))
    c.ensures(lambda: (c.result == 0) == forall_rows(n, ok), "iff")
    c.ensures(lambda: one_of(c.result, 0, E.TSK_ERR_INDIVIDUAL_OUT_OF_BOUNDS, E.TSK_ERR_INDIVIDUAL_SELF_PARENT,
                             E.TSK_ERR_UNSORTED_INDIVIDUALS), "codes")
    c.assigns()


# ------------------------------------------------------------------------------------------
# indexes

class Idx:
    def __init__(self, h, self_):
        self.h = h
        self.p = h.sub(self_, "indexes")
        self.Ip = h.get(self.p, "edge_insertion_order")
        self.Op = h.get(self.p, "edge_removal_order")
        self.n = h.get(self.p, "num_edges")

    @property
    def I(self):
        return self.h.arr(self.Ip)

    @property
    def O(self):
        return self.h.arr(self.Op)

    def rep(self):
        h = self.h
        return z3.And(self.n >= 0,
                      z3.Implies(z3.Not(h.isnull(self.Ip)), z3.And(self.Ip.off == 0, h.len(self.Ip) >= self.n)),
                      z3.Implies(z3.Not(h.isnull(self.Op)), z3.And(self.Op.off == 0, h.len(self.Op) >= self.n)))

    def present(self, T):
        h = self.h
        return z3.And(z3.Not(h.isnull(self.Ip)), z3.Not(h.isnull(self.Op)), self.n == T.edges.n)

    def in_range(self, T):
        n = T.edges.n
        I_, O_ = self.I, self.O
        return z3.ForAll([j], z3.Implies(z3.And(0 <= j, j < n),
                                         z3.And(in_ids(I_[j], n), in_ids(O_[j], n))))


@contract("tables.c", "tsk_table_collection_has_index", ["self", "TSK_UNUSED_options"])
def has_index(c):
    self_ = c.arg("self")
    h = c.old
    c.requires(z3.Not(h.isnull(self_)))
    T = TC(h, self_)
    X = Idx(h, self_)
    c.ensures(lambda: (c.result != 0) == X.present(T), "iff")
    c.assigns()


@contract("tables.c", "tsk_table_collection_check_index_integrity", ["self"])
def check_index_integrity(c):
    self_ = c.arg("self")
    E = c.E
    h = c.old
    c.requires(z3.Not(h.isnull(self_)))
    T = TC(h, self_)
    X = Idx(h, self_)
    c.requires(T.edges.rep())
    c.requires(X.rep())
    n = T.edges.n
    I_, O_ = X.I, X.O
    c.loop(0).invariant(lambda s: z3.And(0 <= s.j, s.j <= n, s.ret == 0, X.present(T),
                                         z3.ForAll([i], z3.Implies(z3.And(0 <= i, i < s.j),
                                                                   z3.And(in_ids(I_[i], n), in_ids(O_[i], n))))))
    c.ensures(lambda: (c.result == 0) == z3.And(X.present(T), X.in_range(T)), "iff")
    c.ensures(lambda: one_of(c.result, 0, E.TSK_ERR_TABLES_NOT_INDEXED, E.TSK_ERR_EDGE_OUT_OF_BOUNDS), "codes")
    c.assigns()


OFFSET_COLS = [("nodes", "metadata"), ("sites", "ancestral_state"), ("sites", "metadata"),
               ("mutations", "derived_state"), ("mutations", "metadata"), ("individuals", "metadata"),
               ("provenances", "timestamp"), ("provenances", "record")]


@contract("tables.c", "tsk_table_collection_check_offsets", ["self"])
def collection_check_offsets(c):
    self_ = c.arg("self")
    h = c.old
    c.requires(z3.Not(h.isnull(self_)))
    T = TC(h, self_)
    c.requires(T.rep(["nodes", "sites", "mutations", "individuals", "provenances"]))
    # under Rep every offset column is well formed, so the only outcome is success
    c.ensures(lambda: c.result == 0, "rep_implies_ok")
    c.assigns()


def tree_pre(T, X):
    """what check_integrity(TSK_CHECK_TREES) has established when it calls check_tree_integrity"""
    E_ = T.edges
    M = T.mutations
    nn, ne, ns, nm = T.nodes.n, E_.n, T.sites.n, M.n
    parent, child = E_.col("parent"), E_.col("child")
    mnode, msite = M.col("node"), M.col("site")
    return z3.And(
        X.rep(), X.present(T), X.in_range(T), d_gt(T.L, ZERO),
        z3.ForAll([j], z3.Implies(z3.And(0 <= j, j < ne), z3.And(in_ids(parent[j], nn), in_ids(child[j], nn)))),
        z3.ForAll([j], z3.Implies(z3.And(0 <= j, j < nm), z3.And(in_ids(mnode[j], nn), in_ids(msite[j], ns)))))


def injective(a, n):
    return z3.ForAll([i, k], z3.Implies(z3.And(0 <= i, i < k, k < n), a[i] != a[k]))


@contract("tables.c", "tsk_table_collection_check_tree_integrity", ["self"])
def check_tree_integrity(c):
    self_ = c.arg("self")
    E = c.E
    h = c.old
    c.requires(z3.Not(h.isnull(self_)))
    T = TC(h, self_)
    X = Idx(h, self_)
    c.requires(T.rep(["nodes", "edges", "sites", "mutations"]))
    c.requires(tree_pre(T, X))
    nn, ne, ns, nm = T.nodes.n, T.edges.n, T.sites.n, T.mutations.n
    I_, O_ = X.I, X.O

    def base(s):
        par, used = s.parent, s.used_edges
        pa = s.arr(par)
        ua = s.arr(used)
        return z3.And(
            s.ret == 0,
            z3.Not(s.isnull(par)), par.off == 0, s.len(par) == nn,
            z3.Not(s.isnull(used)), used.off == 0, s.len(used) == ne,
            0 <= s.j, s.j <= ne, 0 <= s.k, s.k <= ne,
            0 <= s.site, s.site <= ns, 0 <= s.mutation, s.mutation <= nm,
            0 <= s.num_trees, s.num_trees <= (1 << 31) - 2,
            z3.ForAll([i], z3.Implies(z3.And(0 <= i, i < nn), in_ids_or_null(pa[i], nn))),
            z3.ForAll([i], z3.Implies(z3.And(0 <= i, i < ne), z3.And(0 <= ua[i], ua[i] <= 2))),
            z3.ForAll([i], z3.Implies(z3.And(0 <= i, i < s.j), ua[I_[i]] >= 1)),
            z3.ForAll([i], z3.Implies(z3.And(0 <= i, i < s.k), ua[O_[i]] == 2)),
            injective(I_, s.j), injective(O_, s.k))
    for q in range(6):
        c.loop(q).invariant(base)
    c.ensures(lambda: z3.Implies(c.result >= 0, z3.And(injective(I_, ne), injective(O_, ne))),
              "accepted_index_is_permutation")
    c.ensures(lambda: z3.Or(c.result >= 0, one_of(c.result, E.TSK_ERR_NO_MEMORY, E.TSK_ERR_TABLES_BAD_INDEXES,
                                                  E.TSK_ERR_BAD_EDGES_CONTRADICTORY_CHILDREN,
                                                  E.TSK_ERR_MUTATION_TIME_OLDER_THAN_PARENT_NODE,
                                                  E.TSK_ERR_TREE_OVERFLOW)), "codes")
    c.assigns()


@contract("tables.c", "tsk_table_collection_check_integrity", ["self", "options"])
def check_integrity(c):
    self_, options = c.arg("self"), c.arg("options")
    E = c.E
    h = c.old
    c.requires(z3.Not(h.isnull(self_)))
    T = TC(h, self_)
    X = Idx(h, self_)
    c.requires(T.rep())
    c.requires(X.rep())
    trees = flag(options, E.TSK_CHECK_TREES)
    implied = (E.TSK_CHECK_EDGE_ORDERING | E.TSK_CHECK_SITE_ORDERING | E.TSK_CHECK_SITE_DUPLICATES
               | E.TSK_CHECK_MUTATION_ORDERING | E.TSK_CHECK_MIGRATION_ORDERING | E.TSK_CHECK_INDEXES)
    eff = z3.If(trees, options | z3.BitVecVal(implied, 32), options)

    clauses = [
        ("sequence_length", lambda: d_gt(T.L, ZERO)),
        ("nodes", lambda: forall_rows(T.nodes.n, node_ok(T, eff, E))),
        ("edges", lambda: forall_rows(T.edges.n, edge_basic_ok(T))),
        ("edge_order", lambda: z3.Implies(flag(eff, E.TSK_CHECK_EDGE_ORDERING),
                                          forall_rows(T.edges.n, edge_adjacent_order(T)))),
        ("sites", lambda: forall_rows(T.sites.n, site_ok(T, eff, E))),
        ("mutations", lambda: forall_rows(T.mutations.n, mutation_ok(T, eff, E))),
        ("migrations", lambda: forall_rows(T.migrations.n, migration_ok(T, eff, E))),
        ("individuals", lambda: forall_rows(T.individuals.n, individual_ok(T, eff, E)[0])),
        ("indexes", lambda: z3.Implies(flag(eff, E.TSK_CHECK_INDEXES), z3.And(X.present(T), X.in_range(T)))),
        ("index_permutation", lambda: z3.Implies(trees, z3.And(injective(X.I, T.edges.n),
                                                              injective(X.O, T.edges.n)))),
    ]
    masks = [E.TSK_CHECK_EDGE_ORDERING, E.TSK_CHECK_SITE_ORDERING, E.TSK_CHECK_SITE_DUPLICATES,
             E.TSK_CHECK_MUTATION_ORDERING, E.TSK_CHECK_INDIVIDUAL_ORDERING, E.TSK_CHECK_MIGRATION_ORDERING,
             E.TSK_CHECK_INDEXES, E.TSK_CHECK_TREES, E.TSK_NO_CHECK_POPULATION_REFS]
    # the options word the checkers were actually called with is the documented effective one
    if c.mode != "call":     # (a statement about the function's own local: meaningful only when its body is verified)
        c.ensures(lambda: z3.And(*[flag(eff, m) == flag(c.new.local("options"), m) for m in masks]),
                  "effective_options")
    for (nm, fn) in clauses:
        c.ensures((lambda fn=fn: z3.Implies(c.result >= 0, fn())), "accepted_valid_" + nm)
    c.ensures(lambda: z3.Implies(z3.Not(trees), z3.Or(c.result == 0, c.result < 0)), "ret_zero_without_trees")
    c.assigns()
