"""C13: tables behave like a list of rows.  Growth arithmetic, column (re)allocation and the node table's
row operations against the abstract view  rows(t) = [(flags, time, population, individual, metadata bytes)]."""
import z3
from vf.registry import contract
from vf.cfront import parse_type
from vf.cvc import Dbl, d_eq, d_const, Ptr
from .common import TC, Tab, i, j, k, in_ids, flag, MAX_ROWS, SIZE_MAX, wf_offsets

b_ = z3.Int("b")
MAX_ID = (1 << 31) - 2        # TSK_MAX_ID


# ------------------------------------------------------------------------------------------ arithmetic
@contract("tables.c", "check_table_overflow", ["current_size", "additional_rows"])
def check_table_overflow(c):
    cur, add = c.arg("current_size"), c.arg("additional_rows")
    c.ensures(lambda: (c.result != 0) == (cur + add > MAX_ID), "iff_sum_exceeds_max_id")
    c.assigns()


@contract("tables.c", "check_offset_overflow", ["current_size", "additional_elements"])
def check_offset_overflow(c):
    cur, add = c.arg("current_size"), c.arg("additional_elements")
    c.ensures(lambda: (c.result != 0) == (cur + add > SIZE_MAX), "iff_sum_exceeds_size_max")
    c.assigns()


@contract("tables.c", "calculate_max_rows",
          ["num_rows", "max_rows", "max_rows_increment", "additional_rows", "ret_new_max_rows"])
def calculate_max_rows(c):
    n, m, inc, add, outp = (c.arg("num_rows"), c.arg("max_rows"), c.arg("max_rows_increment"),
                            c.arg("additional_rows"), c.arg("ret_new_max_rows"))
    h = c.old
    E = c.E
    c.requires(z3.And(z3.Not(h.isnull(outp)), h.len(outp) >= 1))
    c.requires(z3.And(n <= m, m <= MAX_ROWS))
    out = lambda: c.new.get(outp)
    c.ensures(lambda: (c.result == 0) == z3.And(n + add <= MAX_ID,
                                                z3.Or(n + add <= m, inc == 0, m + inc <= MAX_ID)), "success_iff")
    c.ensures(lambda: z3.Implies(c.result == 0, z3.And(out() >= n + add, out() >= m, out() <= MAX_ROWS,
                                                       z3.Implies(n + add <= m, out() == m))), "new_max_bounds")
    c.ensures(lambda: z3.Or(c.result == 0, c.result == E.TSK_ERR_TABLE_OVERFLOW), "codes")
    c.assigns(outp)


@contract("tables.c", "calculate_max_length",
          ["current_length", "max_length", "max_length_increment", "additional_length", "ret_new_max_length"])
def calculate_max_length(c):
    n, m, inc, add, outp = (c.arg("current_length"), c.arg("max_length"), c.arg("max_length_increment"),
                            c.arg("additional_length"), c.arg("ret_new_max_length"))
    h = c.old
    E = c.E
    c.requires(z3.And(z3.Not(h.isnull(outp)), h.len(outp) >= 1))
    c.requires(n <= m)
    out = lambda: c.new.get(outp)
    c.ensures(lambda: (c.result == 0) == z3.And(n + add <= SIZE_MAX,
                                                z3.Or(n + add <= m, inc == 0, m + inc <= SIZE_MAX)), "success_iff")
    c.ensures(lambda: z3.Implies(c.result == 0, z3.And(out() >= n + add, out() >= m, out() <= SIZE_MAX,
                                                       z3.Implies(n + add <= m, out() == m))), "new_max_bounds")
    c.ensures(lambda: z3.Or(c.result == 0, c.result == E.TSK_ERR_COLUMN_OVERFLOW), "codes")
    c.ensures(lambda: z3.Implies(c.result == 0, z3.Or(out() <= 2 * m, out() <= 65536, out() <= n + add,
                                                      out() <= m + inc)), "new_max_not_excessive")
    c.assigns(outp)


# ------------------------------------------------------------------------------------------ (re)allocation
ELEM_SCENARIOS = ["double", "tsk_id_t", "tsk_size_t", "char", "tsk_flags_t"]


def _elem_size(ex, tname):
    return ex.sizeof(parse_type(tname))


def column_cell(c, colp):
    """(old pointer stored in the cell, its element size as the engine knows it)"""
    cur = c.old.get(colp)
    return cur


@contract("tables.c", "expand_column", ["column", "new_max_rows", "element_size"], scenarios=ELEM_SCENARIOS)
def expand_column(c):
    colp, new_max, esz = c.arg("column"), c.arg("new_max_rows"), c.arg("element_size")
    h = c.old
    E = c.E
    c.requires(z3.And(z3.Not(h.isnull(colp)), h.len(colp) >= 1))
    cur = h.get(colp)
    if c.mode != "call" and c.scenario:
        c.ex.type_region(cur, parse_type(c.scenario))
    if cur.region is not None and cur.region.elem is not None:
        c.requires(esz == c.ex.sizeof(cur.region.elem), "element_size_matches_column_type")
    c.requires(cur.off == 0)
    c.requires(new_max * esz <= SIZE_MAX, "allocation_size_does_not_wrap")
    oldlen = z3.If(h.isnull(cur), 0, h.len(cur))

    def ok():
        n = c.new
        new = n.get(colp)
        if new.region is None:
            return z3.BoolVal(False)
        if new.region.elem is None and cur.region is not None:
            new.region.elem = cur.region.elem      # a void* cell: the grown column has the old element type
        cs = [z3.Not(n.isnull(new)), new.off == 0, n.len(new) == new_max]
        if cur.region is not None and cur.region.elem is not None and cur.region.elem.kind != "struct":
            oa, na = h.arr(cur), n.arr(new)
            cs.append(z3.ForAll([i], z3.Implies(z3.And(0 <= i, i < oldlen, i < new_max), na[i] == oa[i])))
        return z3.And(*cs)

    def unchanged():
        n = c.new
        new = n.get(colp)
        if new.region is not cur.region:
            # at a call site the cell was havoc'ed: say that it still denotes the old column
            if cur.region is None or new.region is None:
                return z3.BoolVal(new.region is cur.region)
            if new.region.elem is None:
                new.region.elem = cur.region.elem
            cs = [n.isnull(new) == h.isnull(cur), n.len(new) == h.len(cur), new.off == 0]
            if cur.region.elem is not None and cur.region.elem.kind != "struct":
                cs.append(n.arr(new) == h.arr(cur))
            return z3.And(*cs)
        cs = [new.off == cur.off]
        if cur.region is not None and cur.region.elem is not None and cur.region.elem.kind != "struct":
            cs.append(n.arr(new) == h.arr(cur))
        return z3.And(*cs)
    c.ensures(lambda: z3.Or(c.result == 0, c.result == E.TSK_ERR_NO_MEMORY), "codes")
    c.ensures(lambda: z3.Implies(c.result == 0, ok()), "grown_column_keeps_prefix")
    c.ensures(lambda: z3.Implies(c.result != 0, unchanged()), "failure_leaves_column")
    c.assigns(colp)


@contract("tables.c", "expand_ragged_column",
          ["current_length", "additional_length", "max_length_increment", "max_length", "column", "element_size"],
          scenarios=["char", "double", "tsk_id_t"])
def expand_ragged_column(c):
    cur_len, add, inc, mlp, colp, esz = (c.arg("current_length"), c.arg("additional_length"),
                                         c.arg("max_length_increment"), c.arg("max_length"), c.arg("column"),
                                         c.arg("element_size"))
    h = c.old
    E = c.E
    c.requires(z3.And(z3.Not(h.isnull(colp)), h.len(colp) >= 1, z3.Not(h.isnull(mlp)), h.len(mlp) >= 1))
    cur = h.get(colp)
    if c.mode != "call" and c.scenario:
        c.ex.type_region(cur, parse_type(c.scenario))
    if cur.region is not None and cur.region.elem is not None:
        c.requires(esz == c.ex.sizeof(cur.region.elem), "element_size_matches_column_type")
    ml = h.get(mlp)
    c.requires(z3.And(cur.off == 0, cur_len <= ml, z3.Not(h.isnull(cur)), h.len(cur) >= ml))
    # the byte size of the largest admissible column must be representable (true for char; for wider
    # elements the library relies on lengths staying far below 2^61)
    c.requires(z3.Implies(esz > 1, z3.And(ml <= (1 << 57), cur_len + add <= (1 << 57), inc <= (1 << 57))),
               "wide_element_lengths_below_2^57")

    def post():
        n = c.new
        new = n.get(colp)
        nml = n.get(mlp)
        if new.region is None:
            return z3.BoolVal(False)
        cs = [z3.Not(n.isnull(new)), new.off == 0, n.len(new) >= nml, nml >= ml]
        if cur.region.elem is not None and cur.region.elem.kind != "struct":
            oa, na = h.arr(cur), n.arr(new)
            cs.append(z3.ForAll([i], z3.Implies(z3.And(0 <= i, i < ml), na[i] == oa[i])))
        return z3.And(z3.And(*cs), z3.Implies(c.result == 0, nml >= cur_len + add),
                      z3.Implies(c.result != 0, nml == ml))
    c.ensures(post, "column_keeps_content_and_has_room")
    c.ensures(lambda: z3.Or(c.result == 0, c.result == E.TSK_ERR_NO_MEMORY, c.result == E.TSK_ERR_COLUMN_OVERFLOW),
              "codes")
    c.ensures(lambda: (c.result == E.TSK_ERR_COLUMN_OVERFLOW) == z3.Not(
        z3.And(cur_len + add <= SIZE_MAX, z3.Or(cur_len + add <= ml, inc == 0, ml + inc <= SIZE_MAX))),
        "overflow_iff")
    c.assigns(colp)
    c.assigns(mlp)


# ------------------------------------------------------------------------------------------ node table
NODE_FIXED = ["flags", "time", "population", "individual"]


class NodeView:
    """abstract view of a node table in heap h"""

    def __init__(self, h, p):
        self.h = h
        self.p = p
        self.T = Tab(h, p, "nodes")

    n = property(lambda s: s.T.n)
    mlen = property(lambda s: s.T.scalar("metadata_length"))
    off = property(lambda s: s.T.col("metadata_offset"))
    md = property(lambda s: s.T.col("metadata"))

    def col(self, name):
        return self.T.col(name)

    def rep(self):
        return self.T.rep()


def rows_prefix_equal(A, B, n):
    """rows [0, n) of views A and B are equal (all fixed columns, offsets and metadata bytes)"""
    cs = []
    for col in NODE_FIXED:
        cs.append(z3.ForAll([j], z3.Implies(z3.And(0 <= j, j < n), A.col(col)[j] == B.col(col)[j])))
    cs.append(z3.ForAll([j], z3.Implies(z3.And(0 <= j, j <= n), A.off[j] == B.off[j])))
    cs.append(z3.ForAll([b_], z3.Implies(z3.And(0 <= b_, b_ < B.off[n]), A.md[b_] == B.md[b_])))
    return z3.And(*cs)


def node_assigns(c, self_):
    h = c.old
    c.assigns(self_)
    for col in NODE_FIXED + ["metadata", "metadata_offset"]:
        c.assigns(h.get(self_, col))


@contract("tables.c", "tsk_node_table_expand_main_columns", ["self", "additional_rows"])
def node_expand_main_columns(c):
    self_, add = c.arg("self"), c.arg("additional_rows")
    h = c.old
    E = c.E
    c.requires(z3.Not(h.isnull(self_)))
    V = NodeView(h, self_)
    c.requires(V.rep())

    def post():
        N = NodeView(c.new, self_)
        return z3.And(N.rep(), N.n == V.n, N.mlen == V.mlen, rows_prefix_equal(N, V, V.n),
                      N.T.scalar("max_metadata_length") == V.T.scalar("max_metadata_length"),
                      z3.Implies(c.result == 0, N.T.max_rows >= V.n + add))
    c.ensures(post, "rows_unchanged_capacity_grown")
    c.ensures(lambda: z3.Or(c.result == 0, c.result == E.TSK_ERR_NO_MEMORY, c.result == E.TSK_ERR_TABLE_OVERFLOW),
              "codes")
    inc = V.T.scalar("max_rows_increment")
    c.ensures(lambda: (c.result == E.TSK_ERR_TABLE_OVERFLOW) == z3.Or(
        V.n + add > MAX_ID, z3.And(V.n + add > V.T.max_rows, inc != 0, V.T.max_rows + inc > MAX_ID)),
        "table_overflow_iff")
    node_assigns(c, self_)


@contract("tables.c", "tsk_node_table_expand_metadata", ["self", "additional_length"])
def node_expand_metadata(c):
    self_, add = c.arg("self"), c.arg("additional_length")
    h = c.old
    E = c.E
    c.requires(z3.Not(h.isnull(self_)))
    V = NodeView(h, self_)
    c.requires(V.rep())

    def post():
        N = NodeView(c.new, self_)
        return z3.And(N.rep(), N.n == V.n, N.mlen == V.mlen, rows_prefix_equal(N, V, V.n),
                      N.T.max_rows == V.T.max_rows,
                      z3.Implies(c.result == 0, N.T.scalar("max_metadata_length") >= V.mlen + add))
    c.ensures(post, "rows_unchanged_capacity_grown")
    c.ensures(lambda: z3.Or(c.result == 0, c.result == E.TSK_ERR_NO_MEMORY, c.result == E.TSK_ERR_COLUMN_OVERFLOW),
              "codes")
    # frame: only the metadata buffer, its pointer and its capacity (rows past num_rows that a caller has already
    # written into the other columns stay as they are)
    c.assigns(self_, ["metadata", "max_metadata_length"])
    c.assigns(h.get(self_, "metadata"))


def appended(N, V, flags, time, population, individual, mdp, mdlen, h):
    """view N = view V ++ [row]"""
    n = V.n
    cs = [N.n == n + 1, rows_prefix_equal(N, V, n),
          N.col("flags")[n] == flags, N.col("time")[n] == time, N.col("population")[n] == population,
          N.col("individual")[n] == individual,
          N.off[n + 1] == V.off[n] + mdlen, N.mlen == V.mlen + mdlen]
    if mdp.region is not None:
        src = h.arr(mdp)
        cs.append(z3.ForAll([b_], z3.Implies(z3.And(0 <= b_, b_ < mdlen), N.md[V.off[n] + b_] == src[mdp.off + b_])))
    else:
        cs.append(mdlen == 0)
    return z3.And(*cs)


def readable(h, p, n):
    return z3.Implies(n > 0, z3.And(z3.Not(h.isnull(p)), p.off >= 0, h.len(p) >= n))


@contract("tables.c", "tsk_node_table_add_row_internal",
          ["self", "flags", "time", "population", "individual", "metadata", "metadata_length"])
def node_add_row_internal(c):
    self_ = c.arg("self")
    flags, time, pop, ind, mdp, mdlen = (c.arg("flags"), c.arg("time"), c.arg("population"), c.arg("individual"),
                                         c.arg("metadata"), c.arg("metadata_length"))
    h = c.old
    c.requires(z3.Not(h.isnull(self_)))
    V = NodeView(h, self_)
    c.requires(V.rep())
    c.requires(z3.And(V.n < V.T.max_rows, V.mlen + mdlen <= V.T.scalar("max_metadata_length")), "room_for_the_row")
    c.requires(readable(h, mdp, mdlen))

    def post():
        N = NodeView(c.new, self_)
        return z3.And(c.result == V.n, N.rep(), appended(N, V, flags, time, pop, ind, mdp, mdlen, h))
    c.ensures(post, "row_appended")
    node_assigns(c, self_)


@contract("tables.c", "tsk_node_table_add_row",
          ["self", "flags", "time", "population", "individual", "metadata", "metadata_length"])
def node_add_row(c):
    self_ = c.arg("self")
    flags, time, pop, ind, mdp, mdlen = (c.arg("flags"), c.arg("time"), c.arg("population"), c.arg("individual"),
                                         c.arg("metadata"), c.arg("metadata_length"))
    h = c.old
    E = c.E
    c.requires(z3.Not(h.isnull(self_)))
    V = NodeView(h, self_)
    c.requires(V.rep())
    c.requires(readable(h, mdp, mdlen))

    def post():
        N = NodeView(c.new, self_)
        return z3.And(N.rep(),
                      z3.Implies(c.result >= 0, z3.And(c.result == V.n,
                                                       appended(N, V, flags, time, pop, ind, mdp, mdlen, h))),
                      z3.Implies(c.result < 0, z3.And(N.n == V.n, N.mlen == V.mlen, rows_prefix_equal(N, V, V.n))))
    c.ensures(post, "list_append_or_unchanged")
    c.ensures(lambda: z3.Or(c.result >= 0, c.result == E.TSK_ERR_NO_MEMORY, c.result == E.TSK_ERR_TABLE_OVERFLOW,
                            c.result == E.TSK_ERR_COLUMN_OVERFLOW), "codes")
    inc = V.T.scalar("max_rows_increment")
    c.ensures(lambda: (c.result == E.TSK_ERR_TABLE_OVERFLOW) == z3.Or(
        V.n + 1 > MAX_ID, z3.And(V.n + 1 > V.T.max_rows, inc != 0, V.T.max_rows + inc > MAX_ID)),
        "table_overflow_iff")
    node_assigns(c, self_)


@contract("tables.c", "tsk_node_table_truncate", ["self", "num_rows"])
def node_truncate(c):
    self_, n = c.arg("self"), c.arg("num_rows")
    h = c.old
    E = c.E
    c.requires(z3.Not(h.isnull(self_)))
    V = NodeView(h, self_)
    c.requires(V.rep())

    def post():
        N = NodeView(c.new, self_)
        return z3.And(N.rep(), (c.result == 0) == (n <= V.n),
                      z3.Implies(c.result == 0, z3.And(N.n == n, N.mlen == V.off[n], rows_prefix_equal(N, V, n))),
                      z3.Implies(c.result != 0, z3.And(c.result == E.TSK_ERR_BAD_TABLE_POSITION, N.n == V.n,
                                                       N.mlen == V.mlen, rows_prefix_equal(N, V, V.n))))
    c.ensures(post, "list_prefix_or_unchanged")
    c.assigns(self_, ["num_rows", "metadata_length"])


@contract("tables.c", "tsk_node_table_clear", ["self"])
def node_clear(c):
    self_ = c.arg("self")
    h = c.old
    c.requires(z3.Not(h.isnull(self_)))
    V = NodeView(h, self_)
    c.requires(V.rep())

    def post():
        N = NodeView(c.new, self_)
        return z3.And(c.result == 0, N.rep(), N.n == 0, N.mlen == 0)
    c.ensures(post, "empty_list")
    c.assigns(self_, ["num_rows", "metadata_length"])


def row_is(n, rowp, V, idx):
    g = lambda f: n.get(rowp, f)
    mdp = g("metadata")
    cs = [g("id") == idx, g("flags") == V.col("flags")[idx], g("time") == V.col("time")[idx],
          g("population") == V.col("population")[idx], g("individual") == V.col("individual")[idx],
          g("metadata_length") == V.off[idx + 1] - V.off[idx]]
    return z3.And(*cs)


@contract("tables.c", "tsk_node_table_get_row_unsafe", ["self", "index", "row"])
def node_get_row_unsafe(c):
    self_, idx, rowp = c.arg("self"), c.arg("index"), c.arg("row")
    h = c.old
    c.requires(z3.And(z3.Not(h.isnull(self_)), z3.Not(h.isnull(rowp)), h.len(rowp) >= 1))
    V = NodeView(h, self_)
    c.requires(V.rep())
    c.requires(z3.And(0 <= idx, idx < V.n), "index_in_range")
    c.ensures(lambda: row_is(c.new, rowp, V, idx), "row_fields")
    c.sets_ptr(rowp, "metadata", Ptr(h.get(self_, "metadata").region, V.off[idx]))
    c.assigns(rowp)


@contract("tables.c", "tsk_node_table_get_row", ["self", "index", "row"])
def node_get_row(c):
    self_, idx, rowp = c.arg("self"), c.arg("index"), c.arg("row")
    h = c.old
    E = c.E
    c.requires(z3.And(z3.Not(h.isnull(self_)), z3.Not(h.isnull(rowp)), h.len(rowp) >= 1))
    V = NodeView(h, self_)
    c.requires(V.rep())
    c.ensures(lambda: (c.result == 0) == z3.And(0 <= idx, idx < V.n), "error_iff_out_of_range")
    c.ensures(lambda: z3.Or(c.result == 0, c.result == E.TSK_ERR_NODE_OUT_OF_BOUNDS), "codes")
    c.ensures(lambda: z3.Implies(c.result == 0, row_is(c.new, rowp, V, idx)), "row_fields")
    c.sets_ptr(rowp, "metadata", Ptr(h.get(self_, "metadata").region, V.off[idx]))
    c.assigns(rowp)


# ------------------------------------------------------------------------------------------ keep_rows helpers
rank = z3.Function("rank", z3.IntSort(), z3.IntSort())          # rank(j) = #{i < j : keep[i]}
_newoff_fns = {}


def newoff_of(off):
    """ghost: newoff_of(off)(j) = bytes of the kept rows before row j of the ragged column with boundaries `off`
    (one unary function per column - named after the array term of its boundaries - so that tables with several ragged
    columns can be described and concrete contract testing can pin the function down)"""
    import hashlib
    key = off.sexpr()
    if key not in _newoff_fns:
        tag = key if len(key) <= 48 and "(" not in key else hashlib.sha1(key.encode()).hexdigest()[:10]
        _newoff_fns[key] = z3.Function("newoff<%s>" % tag, z3.IntSort(), z3.IntSort())
    return _newoff_fns[key]


def rank_axioms(keep, n):
    """definition of the ghost rank function and the consequences of the definition (by induction on j;
    lemma L_rank in lemmas/): bounds and monotonicity"""
    return z3.And(
        rank(0) == 0,
        z3.ForAll([j], z3.Implies(z3.And(0 <= j, j < n), rank(j + 1) == rank(j) + z3.If(keep[j] != 0, 1, 0))),
        z3.ForAll([j], z3.Implies(z3.And(0 <= j, j <= n), z3.And(0 <= rank(j), rank(j) <= j))),
        z3.ForAll([i, j], z3.Implies(z3.And(0 <= i, i <= j, j <= n), rank(i) <= rank(j))))


def newoff_axioms(keep, off, n):
    newoff = newoff_of(off)
    return z3.And(
        newoff(0) == 0,
        z3.ForAll([j], z3.Implies(z3.And(0 <= j, j < n),
                                  newoff(j + 1) == newoff(j) + z3.If(keep[j] != 0, off[j + 1] - off[j], 0))),
        z3.ForAll([j], z3.Implies(z3.And(0 <= j, j <= n), z3.And(0 <= newoff(j), newoff(j) <= off[j]))),
        z3.ForAll([i, j], z3.Implies(z3.And(0 <= i, i <= j, j <= n), newoff(i) <= newoff(j))),
        z3.ForAll([j], z3.Implies(z3.And(0 <= j, j <= n, rank(j) == j), newoff(j) == off[j])))


def keep_pre(c, n, keepp):
    h = c.old
    c.requires(z3.Implies(n > 0, z3.And(z3.Not(h.isnull(keepp)), keepp.off == 0, h.len(keepp) >= n)))
    c.requires(n <= MAX_ROWS)
    keep = h.arr(keepp)
    c.requires(rank_axioms(keep, n))
    return keep


@contract("tables.c", "count_true", ["num_rows", "keep"])
def count_true(c):
    n, keepp = c.arg("num_rows"), c.arg("keep")
    keep = keep_pre(c, n, keepp)
    c.loop(0).invariant(lambda s: z3.And(0 <= s.j, s.j <= n, s.count == rank(s.j)))
    c.ensures(lambda: c.result == rank(n), "number_of_kept_rows")
    c.assigns()


@contract("tables.c", "keep_mask_to_id_map", ["num_rows", "keep", "id_map"])
def keep_mask_to_id_map(c):
    n, keepp, mp = c.arg("num_rows"), c.arg("keep"), c.arg("id_map")
    h = c.old
    keep = keep_pre(c, n, keepp)
    c.requires(z3.Implies(n > 0, z3.And(z3.Not(h.isnull(mp)), mp.off == 0, h.len(mp) >= n)))
    spec = lambda m, q: m[q] == z3.If(keep[q] != 0, rank(q), -1)
    c.loop(0).invariant(lambda s: z3.And(0 <= s.j, s.j <= n, s.next_id == rank(s.j),
                                         z3.ForAll([i], z3.Implies(z3.And(0 <= i, i < s.j), spec(s.arr(mp), i)))))
    c.ensures(lambda: z3.ForAll([i], z3.Implies(z3.And(0 <= i, i < n), spec(c.new.arr(mp), i))), "id_map_is_rank_or_null")
    c.assigns(mp)


def subset_fixed(c, elem_eq=None):
    colp, n, keepp = c.arg("column"), c.arg("num_rows"), c.arg("keep")
    h = c.old
    keep = keep_pre(c, n, keepp)
    c.requires(z3.Implies(n > 0, z3.And(z3.Not(h.isnull(colp)), colp.off == 0, h.len(colp) >= n)))
    col0 = h.arr(colp)
    placed = lambda a, q: z3.Implies(keep[q] != 0, a[rank(q)] == col0[q])
    c.loop(0).invariant(lambda s: z3.And(
        0 <= s.j, s.j <= n, s.k == rank(s.j),
        z3.ForAll([i], z3.Implies(z3.And(0 <= i, i < s.j), placed(s.arr(colp), i))),
        z3.ForAll([i], z3.Implies(z3.And(s.j <= i, i < n), s.arr(colp)[i] == col0[i]))))
    c.ensures(lambda: z3.And(c.result == rank(n),
                             z3.ForAll([i], z3.Implies(z3.And(0 <= i, i < n), placed(c.new.arr(colp), i)))),
              "kept_rows_compacted_in_order")
    c.assigns(colp)


@contract("tables.c", "subset_remap_id_column", ["column", "num_rows", "keep", "id_map"])
def subset_remap_id_column(c):
    """keep_rows on a self-referencing column (mutation parent): kept rows are compacted in order and every non-null
    reference - whether it points backwards or forwards in the table - is replaced by id_map of it"""
    colp, n, keepp, mp = c.arg("column"), c.arg("num_rows"), c.arg("keep"), c.arg("id_map")
    h = c.old
    keep = keep_pre(c, n, keepp)
    c.requires(z3.Implies(n > 0, z3.And(z3.Not(h.isnull(colp)), colp.off == 0, h.len(colp) >= n,
                                        z3.Not(h.isnull(mp)), mp.off == 0, h.len(mp) >= n)))
    col0, m = h.arr(colp), h.arr(mp)
    # what keep_rows has checked before calling: references of kept rows are NULL or rows of the table
    c.requires(z3.ForAll([i], z3.Implies(z3.And(0 <= i, i < n, keep[i] != 0), z3.And(-1 <= col0[i], col0[i] < n))),
               "references_checked")
    placed = lambda a, q: z3.Implies(keep[q] != 0, a[rank(q)] == z3.If(col0[q] == -1, -1, m[col0[q]]))
    c.loop(0).invariant(lambda s: z3.And(
        0 <= s.j, s.j <= n, s.k == rank(s.j),
        z3.ForAll([i], z3.Implies(z3.And(0 <= i, i < s.j), placed(s.arr(colp), i))),
        z3.ForAll([i], z3.Implies(z3.And(s.j <= i, i < n), s.arr(colp)[i] == col0[i]))))
    c.ensures(lambda: z3.And(c.result == rank(n),
                             z3.ForAll([i], z3.Implies(z3.And(0 <= i, i < n), placed(c.new.arr(colp), i)))),
              "kept_rows_compacted_with_references_remapped")
    c.assigns(colp)


@contract("tables.c", "subset_id_column", ["column", "num_rows", "keep"])
def subset_id_column(c):
    subset_fixed(c)


@contract("tables.c", "subset_flags_column", ["column", "num_rows", "keep"])
def subset_flags_column(c):
    subset_fixed(c)


@contract("tables.c", "subset_double_column", ["column", "num_rows", "keep"])
def subset_double_column(c):
    subset_fixed(c)


def subset_ragged(c, remap=False):
    """keep_rows kernel of a ragged column: the kept rows' slices are moved down in order, the new boundaries are the
    ghost newoff; with remap=True every non-null element is replaced by id_map of it (self-referencing column)"""
    datap, offp, n, keepp = c.arg("data"), c.arg("offset_col"), c.arg("num_rows"), c.arg("keep")
    h = c.old
    keep = keep_pre(c, n, keepp)
    c.requires(z3.And(z3.Not(h.isnull(offp)), offp.off == 0, h.len(offp) >= n + 1))
    off0 = h.arr(offp)
    c.requires(z3.And(off0[0] == 0, z3.ForAll([i, k], z3.Implies(z3.And(0 <= i, i <= k, k <= n), off0[i] <= off0[k]))))
    c.requires(z3.Implies(off0[n] > 0, z3.And(z3.Not(h.isnull(datap)), datap.off == 0, h.len(datap) >= off0[n])))
    c.requires(newoff_axioms(keep, off0, n))
    newoff = newoff_of(off0)
    d0 = h.arr(datap) if datap.region is not None else None
    val = lambda x: x
    if remap:
        mp = c.arg("id_map")
        c.requires(z3.Implies(n > 0, z3.And(z3.Not(h.isnull(mp)), mp.off == 0, h.len(mp) >= n)))
        m = h.arr(mp)
        # what keep_rows has checked before calling: the references held by kept rows are NULL or rows of the table
        c.requires(z3.ForAll([i, b_], z3.Implies(z3.And(0 <= i, i < n, keep[i] != 0, off0[i] <= b_, b_ < off0[i + 1]),
                                                 z3.And(-1 <= d0[b_], d0[b_] < n))), "references_checked")
        val = lambda x: z3.If(x == -1, -1, m[x])

    def rows_placed(d, o, upto):
        # kept rows before `upto`: new offset and bytes
        return z3.ForAll([i], z3.Implies(z3.And(0 <= i, i < upto, keep[i] != 0), z3.And(
            o[rank(i)] == newoff(i),
            z3.ForAll([b_], z3.Implies(z3.And(0 <= b_, b_ < off0[i + 1] - off0[i]),
                                       d[newoff(i) + b_] == val(d0[off0[i] + b_]))))))

    a_, a2_ = z3.Ints("a a2")

    def prefix_sorted(o, kk, offset):
        """the new boundaries written so far start at 0, never decrease and do not exceed the bytes written"""
        return z3.And(z3.ForAll([a_, a2_], z3.Implies(z3.And(0 <= a_, a_ <= a2_, a2_ < kk), o[a_] <= o[a2_])),
                      z3.ForAll([a_], z3.Implies(z3.And(0 <= a_, a_ < kk), o[a_] <= offset)),
                      z3.Implies(kk > 0, o[0] == 0), z3.Implies(kk == 0, offset == 0))

    def inv_outer(s):
        d, o = s.arr(datap), s.arr(offp)
        return z3.And(0 <= s.j, s.j <= n, s.k == rank(s.j), s.offset == newoff(s.j),
                      prefix_sorted(o, s.k, s.offset),
                      rows_placed(d, o, s.j),
                      z3.ForAll([i], z3.Implies(z3.And(s.j <= i, i <= n), o[i] == off0[i])),
                      z3.ForAll([b_], z3.Implies(z3.And(off0[s.j] <= b_, b_ < off0[n]), d[b_] == d0[b_])))

    def inv_inner(s):
        d, o = s.arr(datap), s.arr(offp)
        jj = s.j
        return z3.And(0 <= jj, jj < n, keep[jj] != 0, s.k == rank(jj), off0[jj] <= s.i, s.i <= off0[jj + 1],
                      s.offset == newoff(jj) + (s.i - off0[jj]),
                      prefix_sorted(o, s.k + 1, s.offset),
                      rows_placed(d, o, jj), o[rank(jj)] == newoff(jj),
                      z3.ForAll([b_], z3.Implies(z3.And(0 <= b_, b_ < s.i - off0[jj]),
                                                 d[newoff(jj) + b_] == val(d0[off0[jj] + b_]))),
                      z3.ForAll([i], z3.Implies(z3.And(jj < i, i <= n), o[i] == off0[i])),
                      z3.Or(rank(jj) < jj, o[jj] == off0[jj]),
                      z3.ForAll([b_], z3.Implies(z3.And(s.i <= b_, b_ < off0[n]), d[b_] == d0[b_])))
    c.loop(0).invariant(inv_outer)
    c.loop(1).invariant(inv_inner)

    def post():
        d, o = c.new.arr(datap), c.new.arr(offp)
        return z3.And(c.result == newoff(n), o[rank(n)] == newoff(n), rows_placed(d, o, n))
    c.ensures(post, "kept_rows_keep_their_bytes_and_boundaries")
    c.ensures(lambda: z3.And(c.new.arr(offp)[0] == 0, z3.ForAll([a_, a2_], z3.Implies(
        z3.And(0 <= a_, a_ <= a2_, a2_ <= rank(n)), c.new.arr(offp)[a_] <= c.new.arr(offp)[a2_]))),
        "new_boundaries_start_at_zero_and_never_decrease")
    c.assigns(datap)
    c.assigns(offp)


@contract("tables.c", "subset_ragged_char_column", ["data", "offset_col", "num_rows", "keep"])
def subset_ragged_char_column(c):
    subset_ragged(c)


@contract("tables.c", "subset_ragged_double_column", ["data", "offset_col", "num_rows", "keep"])
def subset_ragged_double_column(c):
    subset_ragged(c)


@contract("tables.c", "subset_remap_ragged_id_column", ["data", "offset_col", "num_rows", "keep", "id_map"])
def subset_remap_ragged_id_column(c):
    subset_ragged(c, remap=True)


# ------------------------------------------------------------------------------------------ union / subset helper
@contract("tables.c", "tsk_table_collection_add_and_remap_node",
          ["self", "other", "node_id", "individual_map", "population_map", "node_map", "add_populations"])
def add_and_remap_node(c):
    from .tables_rows_generic import View, wide_ok
    self_, other, node_id = c.arg("self"), c.arg("other"), c.arg("node_id")
    imap, pmap, nmap = c.arg("individual_map"), c.arg("population_map"), c.arg("node_map")
    h = c.old
    E = c.E
    c.requires(z3.And(z3.Not(h.isnull(self_)), z3.Not(h.isnull(other))))
    Ot = TC(h, other)
    VO = NodeView(h, h.sub(other, "nodes"))
    VS = NodeView(h, h.sub(self_, "nodes"))
    c.requires(VO.rep())
    c.requires(VS.rep())
    # the individual and population tables of both collections satisfy their representation invariants (the
    # postcondition of every table operation under C13)
    OI, OP = View(h, h.sub(other, "individuals"), "individuals"), View(h, h.sub(other, "populations"), "populations")
    SI, SP = View(h, h.sub(self_, "individuals"), "individuals"), View(h, h.sub(self_, "populations"), "populations")
    for V_ in (OI, OP, SI, SP):
        c.requires(V_.rep())
    # wide ragged columns: both tables together stay below 2^57 elements (byte sizes representable)
    for col in ("location", "parents"):
        c.requires(wide_ok(SI, col, OI.length(col)))
    ni, npop, nn = Ot.individuals.n, Ot.populations.n, Ot.nodes.n
    for p, n_ in ((imap, ni), (pmap, npop), (nmap, nn)):
        c.requires(z3.Implies(n_ > 0, z3.And(z3.Not(h.isnull(p)), p.off == 0, h.len(p) >= n_)))
    # other has passed check_integrity: node rows reference existing individuals / populations
    ind, pop = VO.col("individual"), VO.col("population")
    c.requires(z3.ForAll([j], z3.Implies(z3.And(0 <= j, j < nn), z3.And(-1 <= ind[j], ind[j] < ni, -1 <= pop[j], pop[j] < npop))))
    # C09: an id outside [0, num_nodes) is rejected before anything is indexed with it
    c.ensures(lambda: z3.Implies(z3.Not(z3.And(0 <= node_id, node_id < nn)), c.result == E.TSK_ERR_NODE_OUT_OF_BOUNDS),
              "out_of_range_node_rejected")
    c.ensures(lambda: z3.Implies(c.result == 0, z3.And(0 <= node_id, node_id < nn, c.new.arr(nmap)[node_id] == VS.n)),
              "node_map_records_the_new_row")
    c.assigns(self_)
    for col in NODE_FIXED + ["metadata", "metadata_offset"]:
        c.assigns(h.get(h.sub(self_, "nodes"), col))
    for (tn, cols) in (("individuals", ["flags", "location", "location_offset", "parents", "parents_offset", "metadata", "metadata_offset"]),
                       ("populations", ["metadata", "metadata_offset"])):
        for col in cols:
            c.assigns(h.get(h.sub(self_, tn), col))
    c.assigns(imap)
    c.assigns(pmap)
    c.assigns(nmap)
