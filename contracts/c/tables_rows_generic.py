"""C13: the row-append chain of the seven tables other than the node table, generated from one template over
each table's column list: expand_main_columns, expand_<ragged column>, add_row against the list-of-rows view."""
import z3
from vf.registry import contract
from vf.cvc import Ptr
from .common import Tab, i, j, k, MAX_ROWS, SIZE_MAX, FIXED, RAGGED
from .tables_rows import readable, MAX_ID

b_ = z3.Int("b")

# table -> (C prefix, fixed columns as (column, add_row parameter), ragged columns as (column, data parameter, length parameter))
SPEC = {
    "edges": ("tsk_edge_table", [("left", "left"), ("right", "right"), ("parent", "parent"), ("child", "child")],
              [("metadata", "metadata", "metadata_length")]),
    "sites": ("tsk_site_table", [("position", "position")],
              [("ancestral_state", "ancestral_state", "ancestral_state_length"), ("metadata", "metadata", "metadata_length")]),
    "mutations": ("tsk_mutation_table", [("site", "site"), ("node", "node"), ("parent", "parent"), ("time", "time")],
                  [("derived_state", "derived_state", "derived_state_length"), ("metadata", "metadata", "metadata_length")]),
    "migrations": ("tsk_migration_table", [("left", "left"), ("right", "right"), ("node", "node"), ("source", "source"),
                                           ("dest", "dest"), ("time", "time")],
                   [("metadata", "metadata", "metadata_length")]),
    "populations": ("tsk_population_table", [], [("metadata", "metadata", "metadata_length")]),
    "provenances": ("tsk_provenance_table", [], [("timestamp", "timestamp", "timestamp_length"), ("record", "record", "record_length")]),
    "individuals": ("tsk_individual_table", [("flags", "flags")],
                    [("location", "location", "location_length"), ("parents", "parents", "parents_length"),
                     ("metadata", "metadata", "metadata_length")]),
}
INTERNAL = ("populations", "provenances", "individuals")     # tables whose add_row writes through *_add_row_internal
ADD_ROW_PARAMS = {
    "edges": ["self", "left", "right", "parent", "child", "metadata", "metadata_length"],
    "sites": ["self", "position", "ancestral_state", "ancestral_state_length", "metadata", "metadata_length"],
    "mutations": ["self", "site", "node", "parent", "time", "derived_state", "derived_state_length", "metadata", "metadata_length"],
    "migrations": ["self", "left", "right", "node", "source", "dest", "time", "metadata", "metadata_length"],
    "populations": ["self", "metadata", "metadata_length"],
    "provenances": ["self", "timestamp", "timestamp_length", "record", "record_length"],
    "individuals": ["self", "flags", "location", "location_length", "parents", "parents_length", "metadata", "metadata_length"],
}


@contract("tables.c", "tsk_edge_table_has_metadata", ["self"])
def edge_has_metadata(c):
    from .common import flag
    self_ = c.arg("self")
    h = c.old
    c.requires(z3.Not(h.isnull(self_)))
    c.ensures(lambda: (c.result != 0) == z3.Not(flag(h.get(self_, "options"), c.E.TSK_TABLE_NO_METADATA)), "iff_option_clear")
    c.assigns()


class View:
    def __init__(self, h, p, name):
        self.h, self.p, self.name = h, p, name
        self.T = Tab(h, p, name)
        self.fixed = [c for c, _ in SPEC[name][1]]
        self.ragged = [c for c, _, _ in SPEC[name][2]]

    n = property(lambda s: s.T.n)

    def rep(self):
        if self.name == "edges":
            # the edge table under contract is one created with metadata enabled (the default); the
            # TSK_TABLE_NO_METADATA variant, which never allocates the metadata columns, is not covered
            from .common import flag
            return z3.And(self.T.rep(), z3.Not(flag(self.h.get(self.p, "options"), 1 << 2)))
        return self.T.rep()

    def parts(self):
        d = self.T.rep_parts()
        if self.name == "edges":
            from .common import flag
            d["main"] = z3.And(d["main"], z3.Not(flag(self.h.get(self.p, "options"), 1 << 2)))
        return d

    def col(self, c):
        return self.T.col(c)

    def off(self, r):
        return self.T.col(r + "_offset")

    def length(self, r):
        return self.T.scalar(r + "_length")

    def maxlen(self, r):
        return self.T.scalar("max_" + r + "_length")


WIDE = ("location", "parents")       # ragged columns whose elements are wider than one byte


def wide_ok(V, col, add):
    """element size > 1: the byte size of the column stays representable (2^57 elements of 8 bytes = 2^60 bytes;
    no real buffer is larger) - the assumption expand_ragged_column is verified under"""
    return z3.And(V.maxlen(col) <= 2 ** 57, V.length(col) + add <= 2 ** 57,
                  V.T.scalar("max_" + col + "_length_increment") <= 2 ** 57)


def prefix_equal(A, B, n):
    cs = []
    for c in A.fixed:
        cs.append(z3.ForAll([j], z3.Implies(z3.And(0 <= j, j < n), A.col(c)[j] == B.col(c)[j])))
    for r in A.ragged:
        cs.append(z3.ForAll([j], z3.Implies(z3.And(0 <= j, j <= n), A.off(r)[j] == B.off(r)[j])))
        cs.append(z3.ForAll([b_], z3.Implies(z3.And(0 <= b_, b_ < B.length(r)), A.col(r)[b_] == B.col(r)[b_])))
    return z3.And(*cs) if cs else z3.BoolVal(True)


def prefix_equal_upto(A, B, n):
    """rows [0, n) of A and B are equal, n being a row count of B or smaller (bytes compared below B's offset n)"""
    cs = []
    for c in A.fixed:
        cs.append(z3.ForAll([j], z3.Implies(z3.And(0 <= j, j < n), A.col(c)[j] == B.col(c)[j])))
    for r in A.ragged:
        cs.append(z3.ForAll([j], z3.Implies(z3.And(0 <= j, j <= n), A.off(r)[j] == B.off(r)[j])))
        cs.append(z3.ForAll([b_], z3.Implies(z3.And(0 <= b_, b_ < B.off(r)[n]), A.col(r)[b_] == B.col(r)[b_])))
    return z3.And(*cs) if cs else z3.BoolVal(True)


def all_assigns(c, name, self_):
    h = c.old
    c.assigns(self_)
    for col in FIXED[name]:
        c.assigns(h.get(self_, col))
    for r in RAGGED[name]:
        c.assigns(h.get(self_, r))
        c.assigns(h.get(self_, r + "_offset"))


def unchanged_scalars(N, V, except_=()):
    cs = [N.n == V.n, N.T.scalar("max_rows_increment") == V.T.scalar("max_rows_increment")]
    for r in V.ragged:
        cs.append(N.length(r) == V.length(r))
        cs.append(N.T.scalar("max_" + r + "_length_increment") == V.T.scalar("max_" + r + "_length_increment"))
    return z3.And(*cs)


def make(name):
    prefix, fixed, ragged = SPEC[name]

    @contract("tables.c", prefix + "_expand_main_columns", ["self", "additional_rows"])
    def expand_main(c):
        self_, add = c.arg("self"), c.arg("additional_rows")
        h, E = c.old, c.E
        c.requires(z3.Not(h.isnull(self_)))
        V = View(h, self_, name)
        vp = V.parts()
        c.requires(z3.And(*[f for k_, f in vp.items() if not k_.startswith("wf:")]))

        def post():
            N = View(c.new, self_, name)
            np_ = N.parts()
            cs = [unchanged_scalars(N, V), prefix_equal(N, V, V.n),
                  z3.Implies(c.result == 0, N.T.max_rows >= V.n + add)]
            cs += [z3.Implies(vp[k_], np_[k_]) for k_ in vp]       # every piece of Rep that held still holds
            for r in V.ragged:
                cs.append(N.maxlen(r) == V.maxlen(r))
            return z3.And(*cs)
        c.ensures(post, "rows_unchanged_capacity_grown")
        c.ensures(lambda: z3.Or(c.result == 0, c.result == E.TSK_ERR_NO_MEMORY, c.result == E.TSK_ERR_TABLE_OVERFLOW), "codes")
        inc = V.T.scalar("max_rows_increment")
        c.ensures(lambda: (c.result == E.TSK_ERR_TABLE_OVERFLOW) == z3.Or(
            V.n + add > MAX_ID, z3.And(V.n + add > V.T.max_rows, inc != 0, V.T.max_rows + inc > MAX_ID)), "table_overflow_iff")
        all_assigns(c, name, self_)

    for (rcol, _dp, _lp) in ragged:
        def mk(rcol=rcol):
            @contract("tables.c", prefix + "_expand_" + rcol, ["self", "additional_length"])
            def expand_r(c):
                self_, add = c.arg("self"), c.arg("additional_length")
                h, E = c.old, c.E
                c.requires(z3.Not(h.isnull(self_)))
                V = View(h, self_, name)
                vp = V.parts()
                c.requires(z3.And(vp["main"], vp["cap:" + rcol]))
                if rcol in WIDE:
                    c.requires(wide_ok(V, rcol, add))

                def post():
                    N = View(c.new, self_, name)
                    np_ = N.parts()
                    cs = [unchanged_scalars(N, V), prefix_equal(N, V, V.n), N.T.max_rows == V.T.max_rows,
                          z3.Implies(c.result == 0, N.maxlen(rcol) >= V.length(rcol) + add)]
                    cs += [z3.Implies(vp[k_], np_[k_]) for k_ in vp]
                    for r in V.ragged:
                        if r != rcol:
                            cs.append(N.maxlen(r) == V.maxlen(r))
                    return z3.And(*cs)
                c.ensures(post, "rows_unchanged_capacity_grown")
                c.ensures(lambda: z3.Or(c.result == 0, c.result == E.TSK_ERR_NO_MEMORY, c.result == E.TSK_ERR_COLUMN_OVERFLOW), "codes")
                # frame: only this column's buffer, its pointer and its capacity (the other columns, in
                # particular a row already written past num_rows by add_row, are untouched)
                c.assigns(self_, [rcol, "max_" + rcol + "_length"])
                c.assigns(h.get(self_, rcol))
        mk()

    def row_args(c, internal=False):
        args, rag = {}, {}
        h = c.old
        for (col, par) in fixed:
            args[col] = c.arg(par)
        for (col, dp, lp) in ragged:
            rag[col] = (c.arg(dp), c.arg(lp))
            c.requires(readable(h, rag[col][0], rag[col][1]))
            if col in WIDE and not internal:
                c.requires(wide_ok(View(h, c.arg("self"), name), col, rag[col][1]))
        return args, rag

    def appended(N, V, h, args, rag):
        n = V.n
        cs = [N.n == n + 1, prefix_equal(N, V, n)]
        for col in args:
            cs.append(N.col(col)[n] == args[col])
        for col, (dp, ln) in rag.items():
            cs.append(N.off(col)[n + 1] == V.off(col)[n] + ln)
            cs.append(N.length(col) == V.length(col) + ln)
            if dp.region is not None:
                src = h.arr(dp)
                cs.append(z3.ForAll([b_], z3.Implies(z3.And(0 <= b_, b_ < ln), N.col(col)[V.off(col)[n] + b_] == src[dp.off + b_])))
            else:
                cs.append(ln == 0)
        return z3.And(*cs)

    if name in INTERNAL:
        @contract("tables.c", prefix + "_add_row_internal", ADD_ROW_PARAMS[name])
        def add_row_internal(c):
            self_ = c.arg("self")
            h = c.old
            c.requires(z3.Not(h.isnull(self_)))
            V = View(h, self_, name)
            c.requires(V.rep())
            args, rag = row_args(c, internal=True)
            # the caller has made room: one more row and the bytes of every ragged column fit
            c.requires(V.n < V.T.max_rows)
            for col, (dp, ln) in rag.items():
                c.requires(V.length(col) + ln <= V.maxlen(col))
                if col in WIDE:
                    c.requires(V.length(col) + ln <= 2 ** 57)

            def post():
                N = View(c.new, self_, name)
                return z3.And(c.result == V.n, appended(N, V, h, args, rag), N.rep())
            c.ensures(post, "list_append")
            all_assigns(c, name, self_)

    @contract("tables.c", prefix + "_add_row", ADD_ROW_PARAMS[name])
    def add_row(c):
        self_ = c.arg("self")
        h, E = c.old, c.E
        c.requires(z3.Not(h.isnull(self_)))
        V = View(h, self_, name)
        c.requires(V.rep())
        args, rag = row_args(c)

        def post():
            N = View(c.new, self_, name)
            return z3.And(z3.Implies(c.result >= 0, z3.And(c.result == V.n, appended(N, V, h, args, rag), N.rep())),
                          z3.Implies(c.result < 0, z3.And(unchanged_scalars(N, V), prefix_equal(N, V, V.n), N.rep())))
        c.ensures(post, "list_append_or_unchanged")
        c.ensures(lambda: z3.Or(c.result >= 0, c.result == E.TSK_ERR_NO_MEMORY, c.result == E.TSK_ERR_TABLE_OVERFLOW,
                                c.result == E.TSK_ERR_COLUMN_OVERFLOW, c.result == E.TSK_ERR_METADATA_DISABLED), "codes")
        all_assigns(c, name, self_)

    # ---------------------------------------------------------------- truncate / clear / get_row
    OOB = {"edges": "TSK_ERR_EDGE_OUT_OF_BOUNDS", "sites": "TSK_ERR_SITE_OUT_OF_BOUNDS",
           "mutations": "TSK_ERR_MUTATION_OUT_OF_BOUNDS", "migrations": "TSK_ERR_MIGRATION_OUT_OF_BOUNDS",
           "populations": "TSK_ERR_POPULATION_OUT_OF_BOUNDS", "provenances": "TSK_ERR_PROVENANCE_OUT_OF_BOUNDS",
           "individuals": "TSK_ERR_INDIVIDUAL_OUT_OF_BOUNDS"}[name]
    len_fields = ["num_rows"] + [r + "_length" for (r, _d, _l) in ragged]

    tself = "mutations" if name == "mutations" else "self"      # the parameter's name in tables.c

    @contract("tables.c", prefix + "_truncate", [tself, "num_rows"])
    def truncate(c):
        self_, n = c.arg(tself), c.arg("num_rows")
        h, E = c.old, c.E
        c.requires(z3.Not(h.isnull(self_)))
        V = View(h, self_, name)
        c.requires(V.rep())

        def post():
            N = View(c.new, self_, name)
            kept = [N.n == n, prefix_equal_upto(N, V, n)] + [N.length(r) == V.off(r)[n] for r in V.ragged]
            return z3.And(N.rep(), (c.result == 0) == (n <= V.n),
                          z3.Implies(c.result == 0, z3.And(*kept)),
                          z3.Implies(c.result != 0, z3.And(c.result == E.TSK_ERR_BAD_TABLE_POSITION,
                                                           unchanged_scalars(N, V), prefix_equal(N, V, V.n))))
        c.ensures(post, "list_prefix_or_unchanged")
        c.assigns(self_, len_fields)

    @contract("tables.c", prefix + "_clear", ["self"])
    def clear(c):
        self_ = c.arg("self")
        h = c.old
        c.requires(z3.Not(h.isnull(self_)))
        V = View(h, self_, name)
        c.requires(V.rep())

        def post():
            N = View(c.new, self_, name)
            return z3.And(c.result == 0, N.rep(), N.n == 0, *[N.length(r) == 0 for r in V.ragged])
        c.ensures(post, "empty_list")
        c.assigns(self_, len_fields)

    def row_is(n, rowp, V, idx):
        g = lambda f: n.get(rowp, f)
        cs = [g("id") == idx]
        for (col, par) in fixed:
            cs.append(g(par) == V.col(col)[idx])
        for (col, dp, lp) in ragged:
            cs.append(g(lp) == V.off(col)[idx + 1] - V.off(col)[idx])
        return z3.And(*cs)

    def row_ptrs(c, h, self_, rowp, V, idx):
        for (col, dp, lp) in ragged:
            c.sets_ptr(rowp, dp, Ptr(h.get(self_, col).region, V.off(col)[idx]))

    @contract("tables.c", prefix + "_get_row_unsafe", ["self", "index", "row"])
    def get_row_unsafe(c):
        self_, idx, rowp = c.arg("self"), c.arg("index"), c.arg("row")
        h = c.old
        c.requires(z3.And(z3.Not(h.isnull(self_)), z3.Not(h.isnull(rowp)), h.len(rowp) >= 1))
        V = View(h, self_, name)
        c.requires(V.rep())
        c.requires(z3.And(0 <= idx, idx < V.n), "index_in_range")
        c.ensures(lambda: row_is(c.new, rowp, V, idx), "row_fields")
        row_ptrs(c, h, self_, rowp, V, idx)
        c.assigns(rowp)

    @contract("tables.c", prefix + "_get_row", ["self", "index", "row"])
    def get_row(c):
        self_, idx, rowp = c.arg("self"), c.arg("index"), c.arg("row")
        h, E = c.old, c.E
        c.requires(z3.And(z3.Not(h.isnull(self_)), z3.Not(h.isnull(rowp)), h.len(rowp) >= 1))
        V = View(h, self_, name)
        c.requires(V.rep())
        c.ensures(lambda: (c.result == 0) == z3.And(0 <= idx, idx < V.n), "error_iff_out_of_range")
        c.ensures(lambda: z3.Or(c.result == 0, c.result == getattr(E, OOB)), "codes")
        c.ensures(lambda: z3.Implies(c.result == 0, row_is(c.new, rowp, V, idx)), "row_fields")
        row_ptrs(c, h, self_, rowp, V, idx)
        c.assigns(rowp)


for _name in SPEC:
    make(_name)
