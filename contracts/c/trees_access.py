"""C09 / C01: the per-node accessors of tsk_tree_t: every identifier is checked with tsk_tree_check_node (which admits
the virtual root) before any array is indexed with it, and the walks up the parent array stay inside the arrays."""
import z3
from vf.registry import contract
from .common import TC, i, j, k, flag, MAX_ROWS
from .trees_nav import tree_rep

t_ = z3.Int("t")


def parents_wf(h, self_):
    """parent[] holds node ids or NULL for every node, NULL for the virtual root (what the edit functions maintain)"""
    n = h.get(self_, "num_nodes")
    par = h.arr(h.get(self_, "parent"))
    return z3.And(z3.ForAll([t_], z3.Implies(z3.And(0 <= t_, t_ < n), z3.And(-1 <= par[t_], par[t_] < n))), par[n] == -1)


gdepth = z3.Function("gdepth", z3.IntSort(), z3.IntSort())     # ghost: number of proper ancestors of a node


def depth_axioms(h, self_):
    """the parent relation of a tree is acyclic: every node has a finite depth, at most num_nodes - 1 (definition by
    recursion on the parent; the bound is the pigeonhole fact about simple paths, stated as an axiom)"""
    n = h.get(self_, "num_nodes")
    par = h.arr(h.get(self_, "parent"))
    return z3.ForAll([t_], z3.Implies(z3.And(0 <= t_, t_ < n), z3.And(
        0 <= gdepth(t_), gdepth(t_) < n,
        z3.If(par[t_] == -1, gdepth(t_) == 0, gdepth(t_) == gdepth(par[t_]) + 1))))


def pre(c, need_time=False):
    self_ = c.arg("self")
    h, E = c.old, c.E
    c.requires(z3.Not(h.isnull(self_)))
    c.requires(tree_rep(h, self_, E))
    c.requires(parents_wf(h, self_))
    if need_time:
        T = TC(h, h.get(h.get(self_, "tree_sequence"), "tables"))
        c.requires(T.nodes.rep())
    return self_, h, E, h.get(self_, "num_nodes"), h.arr(h.get(self_, "parent"))


def out_cell(c, h, name):
    p = c.arg(name)
    c.requires(z3.And(z3.Not(h.isnull(p)), h.len(p) >= 1))
    return p


def id_rule(c, u, n, E):
    c.ensures(lambda: (c.result == 0) == z3.And(0 <= u, u <= n), "accepted_iff_node_or_virtual_root")
    c.ensures(lambda: z3.Or(c.result == 0, c.result == E.TSK_ERR_NODE_OUT_OF_BOUNDS), "codes")


@contract("trees.c", "tsk_tree_get_parent", ["self", "u", "parent"])
def get_parent(c):
    self_, h, E, n, par = pre(c)
    u, outp = c.arg("u"), out_cell(c, h, "parent")
    id_rule(c, u, n, E)
    c.ensures(lambda: z3.Implies(c.result == 0, c.new.get(outp) == par[u]), "value")
    c.assigns(outp)


@contract("trees.c", "tsk_tree_get_branch_length_unsafe", ["self", "u"])
def get_branch_length_unsafe(c):
    self_, h, E, n, par = pre(c, need_time=True)
    u = c.arg("u")
    c.requires(z3.And(0 <= u, u <= n), "checked_id")
    c.assigns()


@contract("trees.c", "tsk_tree_get_branch_length", ["self", "u", "ret_branch_length"])
def get_branch_length(c):
    self_, h, E, n, par = pre(c, need_time=True)
    u, outp = c.arg("u"), out_cell(c, h, "ret_branch_length")
    id_rule(c, u, n, E)
    c.assigns(outp)


@contract("trees.c", "tsk_tree_get_depth_unsafe", ["self", "u"])
def get_depth_unsafe(c):
    self_, h, E, n, par = pre(c)
    u = c.arg("u")
    c.requires(z3.And(0 <= u, u <= n), "checked_id")
    c.requires(depth_axioms(h, self_), "ghost_depth")
    c.loop(0).invariant(lambda s: z3.And(-1 <= s.local("v"), s.local("v") < n, 0 <= s.depth, u != n,
                                         z3.If(s.local("v") == -1, s.depth == gdepth(u),
                                               s.depth + gdepth(s.local("v")) + 1 == gdepth(u))))
    c.ensures(lambda: z3.If(u == n, c.result == -1, c.result == gdepth(u)), "number_of_proper_ancestors")
    c.assigns()


@contract("trees.c", "tsk_tree_get_depth", ["self", "u", "depth_ret"])
def get_depth(c):
    self_, h, E, n, par = pre(c)
    u, outp = c.arg("u"), out_cell(c, h, "depth_ret")
    c.requires(depth_axioms(h, self_), "ghost_depth")
    id_rule(c, u, n, E)
    c.ensures(lambda: z3.Implies(c.result == 0, c.new.get(outp) == z3.If(u == n, -1, gdepth(u))), "value")
    c.assigns(outp)


@contract("trees.c", "tsk_tree_is_descendant", ["self", "u", "v"])
def is_descendant(c):
    self_, h, E, n, par = pre(c)
    u, v = c.arg("u"), c.arg("v")
    c.loop(0).invariant(lambda s: z3.And(-1 <= s.w, s.w <= n, 0 <= v, v <= n, z3.Implies(u == v, s.w == v)))
    c.ensures(lambda: z3.Implies(c.result != 0, z3.And(0 <= u, u <= n, 0 <= v, v <= n)), "true_only_for_checked_ids")
    c.ensures(lambda: z3.Implies(z3.And(0 <= u, u <= n, u == v), c.result != 0), "reflexive")
    c.assigns()


@contract("trees.c", "tsk_tree_get_mrca", ["self", "u", "v", "mrca"])
def get_mrca(c):
    self_, h, E, n, par = pre(c, need_time=True)
    u, v, outp = c.arg("u"), c.arg("v"), out_cell(c, h, "mrca")
    c.loop(0).invariant(lambda s: z3.And(0 <= s.u, s.u < n, 0 <= s.local("v"), s.local("v") < n, s.ret == 0,
                                         z3.Implies(u == v, z3.And(s.u == u, s.local("v") == v))))
    c.ensures(lambda: (c.result == 0) == z3.And(0 <= u, u <= n, 0 <= v, v <= n), "accepted_iff_both_checked")
    c.ensures(lambda: z3.Or(c.result == 0, c.result == E.TSK_ERR_NODE_OUT_OF_BOUNDS), "codes")
    c.ensures(lambda: z3.Implies(c.result == 0, z3.And(-1 <= c.new.get(outp), c.new.get(outp) <= n,
                                                       z3.Implies(z3.Or(u == n, v == n), c.new.get(outp) == n),
                                                       z3.Implies(z3.And(u == v), c.new.get(outp) == u))), "value_is_a_node_or_null")
    c.assigns(outp)


@contract("trees.c", "tsk_tree_get_num_tracked_samples", ["self", "u", "num_tracked_samples"])
def get_num_tracked_samples(c):
    self_, h, E, n, par = pre(c)
    u, outp = c.arg("u"), out_cell(c, h, "num_tracked_samples")
    nosc = flag(h.get(self_, "options"), E.TSK_NO_SAMPLE_COUNTS)
    c.ensures(lambda: z3.Implies(z3.Not(z3.And(0 <= u, u <= n)), c.result == E.TSK_ERR_NODE_OUT_OF_BOUNDS), "bad_id_rejected")
    c.ensures(lambda: (c.result == 0) == z3.And(0 <= u, u <= n, z3.Not(nosc)), "accepted_iff")
    c.ensures(lambda: z3.Implies(c.result == 0, c.new.get(outp) == h.arr(h.get(self_, "num_tracked_samples"))[u]), "value")
    c.assigns(outp)


# ------------------------------------------------------------------------------------------ tree sequence row getters
def _getter(tname, table, err, extra=None):
    from .tables_rows import NodeView
    from .tables_rows_generic import View

    @contract("trees.c", "tsk_treeseq_get_" + tname, ["self", "index", tname])
    def getter(c):
        """C09: a row identifier is accepted exactly when 0 <= index < number of rows (the row count itself, negative
        and huge values are refused with the table's out-of-bounds code); nothing is indexed before that check"""
        self_, idx, rowp = c.arg("self"), c.arg("index"), c.arg(tname)
        h, E = c.old, c.E
        c.requires(z3.And(z3.Not(h.isnull(self_)), z3.Not(h.isnull(rowp)), h.len(rowp) >= 1))
        tp = h.get(self_, "tables")
        c.requires(z3.And(z3.Not(h.isnull(tp)), tp.off == 0, h.len(tp) >= 1))
        V = NodeView(h, h.sub(tp, "nodes")) if table == "nodes" else View(h, h.sub(tp, table), table)
        c.requires(V.rep())
        n = V.n
        for arr in (extra or []):
            p = h.get(self_, arr)       # per-row arrays built by tsk_treeseq_init: one entry per row of the table
            c.requires(z3.Implies(n > 0, z3.And(z3.Not(h.isnull(p)), p.off == 0, h.len(p) >= n)))
        c.ensures(lambda: (c.result == 0) == z3.And(0 <= idx, idx < n), "accepted_iff_a_row_of_the_table")
        c.ensures(lambda: z3.Or(c.result == 0, c.result == getattr(E, err)), "codes")
        c.assigns(rowp)
    return getter


_getter("node", "nodes", "TSK_ERR_NODE_OUT_OF_BOUNDS")
_getter("edge", "edges", "TSK_ERR_EDGE_OUT_OF_BOUNDS")
_getter("migration", "migrations", "TSK_ERR_MIGRATION_OUT_OF_BOUNDS")
_getter("mutation", "mutations", "TSK_ERR_MUTATION_OUT_OF_BOUNDS", ["site_mutations_mem"])
# (tsk_treeseq_get_site / _get_individual load a pointer out of an array of pointers - site_mutations[index],
# individual_nodes[index] - which the memory model of the generator does not cover: not under contract)
_getter("population", "populations", "TSK_ERR_POPULATION_OUT_OF_BOUNDS")
_getter("provenance", "provenances", "TSK_ERR_PROVENANCE_OUT_OF_BOUNDS")


# ------------------------------------------------------------------------------------------ tracked samples
@contract("trees.c", "tsk_tree_has_sample_counts", ["self"])
def has_sample_counts(c):
    self_ = c.arg("self")
    h, E = c.old, c.E
    c.requires(z3.Not(h.isnull(self_)))
    c.ensures(lambda: (c.result != 0) == z3.Not(flag(h.get(self_, "options"), E.TSK_NO_SAMPLE_COUNTS)), "iff_option_clear")
    c.assigns()


@contract("trees.c", "tsk_treeseq_is_sample", ["self", "u"])
def treeseq_is_sample(c):
    self_, u = c.arg("self"), c.arg("u")
    h, E = c.old, c.E
    c.requires(z3.Not(h.isnull(self_)))
    tp = h.get(self_, "tables")
    c.requires(z3.And(z3.Not(h.isnull(tp)), tp.off == 0, h.len(tp) >= 1))
    T = TC(h, tp)
    c.requires(T.nodes.rep())
    fl = T.nodes.col("flags")
    c.ensures(lambda: (c.result != 0) == z3.And(0 <= u, u < T.nodes.n, flag(fl[u], E.TSK_NODE_IS_SAMPLE)), "a_node_with_the_sample_bit")
    c.assigns()


@contract("trees.c", "tsk_tree_reset_tracked_samples", ["self"])
def reset_tracked_samples(c):
    self_, h, E, n, par = pre(c)
    nosc = flag(h.get(self_, "options"), E.TSK_NO_SAMPLE_COUNTS)
    ntp = h.get(self_, "num_tracked_samples")
    c.ensures(lambda: (c.result == 0) == z3.Not(nosc), "needs_sample_counts")
    c.ensures(lambda: z3.Or(c.result == 0, c.result == E.TSK_ERR_UNSUPPORTED_OPERATION), "codes")
    c.ensures(lambda: z3.Implies(c.result == 0, z3.ForAll([t_], z3.Implies(z3.And(0 <= t_, t_ <= n), c.new.arr(ntp)[t_] == 0))), "all_zero")
    c.assigns(ntp)


@contract("trees.c", "tsk_tree_set_tracked_samples", ["self", "num_tracked_samples", "tracked_samples"])
def set_tracked_samples(c):
    """C09: every tracked id is checked (a node, a sample, not listed twice) before the counts above it are touched,
    and the walk up the parent array stays inside the arrays"""
    self_, h, E, n, par = pre(c, need_time=True)
    m, tp_ = c.arg("num_tracked_samples"), c.arg("tracked_samples")
    c.requires(z3.Implies(m > 0, z3.And(z3.Not(h.isnull(tp_)), tp_.off == 0, h.len(tp_) >= m)))
    ids = h.arr(tp_) if tp_.region is not None else None
    T = TC(h, h.get(h.get(self_, "tree_sequence"), "tables"))
    fl = T.nodes.col("flags")
    good = (lambda q: z3.And(0 <= ids[q], ids[q] < n, flag(fl[ids[q]], E.TSK_NODE_IS_SAMPLE))) if ids is not None else (lambda q: z3.BoolVal(True))
    c.loop(0).invariant(lambda s: z3.And(0 <= s.j, s.j <= m, s.ret == 0, z3.Not(flag(h.get(self_, "options"), E.TSK_NO_SAMPLE_COUNTS)),
                                         z3.ForAll([t_], z3.Implies(z3.And(0 <= t_, t_ < s.j), good(t_)))))
    c.loop(1).invariant(lambda s: z3.And(0 <= s.j, s.j < m, s.ret == 0, -1 <= s.u, s.u < n, good(s.j),
                                         z3.Not(flag(h.get(self_, "options"), E.TSK_NO_SAMPLE_COUNTS)),
                                         z3.ForAll([t_], z3.Implies(z3.And(0 <= t_, t_ < s.j), good(t_)))))
    c.ensures(lambda: z3.Implies(c.result == 0, z3.ForAll([t_], z3.Implies(z3.And(0 <= t_, t_ < m), good(t_)))), "accepted_ids_are_sample_nodes")
    c.ensures(lambda: z3.Or(c.result == 0, c.result == E.TSK_ERR_NODE_OUT_OF_BOUNDS, c.result == E.TSK_ERR_BAD_SAMPLES,
                            c.result == E.TSK_ERR_DUPLICATE_SAMPLE, c.result == E.TSK_ERR_UNSUPPORTED_OPERATION), "codes")
    c.assigns(h.get(self_, "num_tracked_samples"))


@contract("trees.c", "tsk_tree_get_time", ["self", "u", "t"])
def get_time(c):
    """the virtual root is infinitely old; any other id must be a row of the node table"""
    self_, h, E, n, par = pre(c, need_time=True)
    u, outp = c.arg("u"), out_cell(c, h, "t")
    c.ensures(lambda: (c.result == 0) == z3.And(0 <= u, u <= n), "accepted_iff_node_or_virtual_root")
    c.ensures(lambda: z3.Or(c.result == 0, c.result == E.TSK_ERR_NODE_OUT_OF_BOUNDS), "codes")
    c.assigns(outp)


@contract("trees.c", "tsk_tree_get_num_samples", ["self", "u", "num_samples"])
def get_num_samples(c):
    self_, h, E, n, par = pre(c)
    u, outp = c.arg("u"), out_cell(c, h, "num_samples")
    c.requires(z3.Not(flag(h.get(self_, "options"), E.TSK_NO_SAMPLE_COUNTS)), "sample_counts_enabled")
    id_rule(c, u, n, E)
    c.ensures(lambda: z3.Implies(c.result == 0, c.new.get(outp) == h.arr(h.get(self_, "num_samples"))[u]), "value")
    c.assigns(outp)


# --- roots and sample status (C01 derived views: the roots are the children of the virtual root) ---------------------

@contract("trees.c", "tsk_tree_is_sample", ["self", "u"])
def tree_is_sample(c):
    self_, h, E, n, par = pre(c, need_time=True)
    u = c.arg("u")
    T = TC(h, h.get(h.get(self_, "tree_sequence"), "tables"))
    fl = T.nodes.col("flags")
    c.ensures(lambda: (c.result != 0) == z3.And(0 <= u, u < n, flag(fl[u], E.TSK_NODE_IS_SAMPLE)),
              "a_node_of_the_tables_with_the_sample_bit")
    c.assigns()


@contract("trees.c", "tsk_tree_get_left_root", ["self"])
def get_left_root(c):
    self_, h, E, n, par = pre(c)
    c.ensures(lambda: c.result == h.arr(h.get(self_, "left_child"))[n], "first_child_of_the_virtual_root")
    c.assigns()


@contract("trees.c", "tsk_tree_get_right_root", ["self"])
def get_right_root(c):
    self_, h, E, n, par = pre(c)
    c.ensures(lambda: c.result == h.arr(h.get(self_, "right_child"))[n], "last_child_of_the_virtual_root")
    c.assigns()


@contract("trees.c", "tsk_tree_get_num_roots", ["self"])
def get_num_roots(c):
    self_, h, E, n, par = pre(c)
    nc = h.arr(h.get(self_, "num_children"))
    c.requires(nc[n] >= 0, "child_counts_are_counts")
    c.ensures(lambda: c.result == nc[n], "number_of_children_of_the_virtual_root")
    c.assigns()


def _walk_to_root(c, cur):
    self_, h, E, n, par = pre(c)
    u = c.arg("u")
    c.requires(z3.And(0 <= u, u <= n), "checked_id")
    c.requires(depth_axioms(h, self_), "ghost_depth")
    # the walk stays on ancestors-or-self of u: the node reached is gdepth(u) - gdepth(cur) steps above u
    c.loop(0).invariant(lambda s: z3.And(0 <= cur(s), cur(s) <= n,
                                         z3.Implies(u == n, cur(s) == n),
                                         z3.Implies(par[u] == -1, cur(s) == u),
                                         z3.Implies(u < n, z3.And(cur(s) < n, gdepth(cur(s)) <= gdepth(u)))))
    c.ensures(lambda: z3.And(0 <= c.result, c.result <= n, par[c.result] == -1), "a_node_without_parent")
    c.ensures(lambda: z3.Implies(par[u] == -1, c.result == u), "a_root_is_its_own_root")
    c.ensures(lambda: z3.Implies(u < n, z3.And(c.result < n, gdepth(c.result) == 0)), "depth_zero_ancestor")
    c.assigns()


@contract("trees.c", "tsk_tree_get_node_root", ["self", "u"])
def get_node_root(c):
    _walk_to_root(c, lambda s: s.u)


@contract("trees.c", "tsk_tree_node_root", ["self", "u"])
def node_root(c):
    _walk_to_root(c, lambda s: s.local("v"))
