"""C01: the primitive edits of the quintuply linked tree (trees.c).  Contracts state the exact effect on every
cell of the five link arrays and num_children (whole-array postconditions: every other cell is unchanged);
lemmas/tree_links.py derives preservation of the sibling-list well-formedness from these formulas."""
import z3
from vf.registry import contract
from .common import i, j, k, MAX_ROWS

ARR = ["left_child", "right_child", "left_sib", "right_sib", "num_children"]


def setup(c, with_parent=True):
    self_ = c.arg("self")
    h = c.old
    c.requires(z3.Not(h.isnull(self_)))
    N = h.get(self_, "num_nodes") + 1
    c.requires(z3.And(N >= 1, N <= MAX_ROWS))
    ptr = {a: h.get(self_, a) for a in ARR}
    for a in ARR:
        c.requires(z3.And(z3.Not(h.isnull(ptr[a])), ptr[a].off == 0, h.len(ptr[a]) >= N))
    par = c.arg("parent") if with_parent else h.get(self_, "parent")
    c.requires(z3.And(z3.Not(h.isnull(par)), par.off == 0, h.len(par) >= N))
    return self_, h, N, ptr, par


def upd(arr, *pairs):
    """functional update of a z3 array: later pairs win"""
    for (ix, val) in pairs:
        arr = z3.Store(arr, ix, val)
    return arr


def insert_effect(LC, RC, LS, RS, NC, P, p, ch, parent_value=None):
    """the arrays after tsk_tree_insert_branch(p, ch) -- shared by the contract and by lemmas/tree_links.py"""
    u = RC[p]
    first = u == -1
    return dict(P=upd(P, (ch, p if parent_value is None else parent_value)),
                RC=upd(RC, (p, ch)), NC=upd(NC, (p, NC[p] + 1)),
                LC=z3.If(first, upd(LC, (p, ch)), LC),
                LS=upd(LS, (ch, z3.If(first, -1, u))),
                RS=z3.If(first, upd(RS, (ch, -1)), upd(RS, (u, ch), (ch, -1))))


def remove_effect(LC, RC, LS, RS, NC, P, p, ch):
    """the arrays after tsk_tree_remove_branch(p, ch)"""
    l, r = LS[ch], RS[ch]
    return dict(P=upd(P, (ch, -1)), NC=upd(NC, (p, NC[p] - 1)),
                LC=z3.If(l == -1, upd(LC, (p, r)), LC),
                RC=z3.If(r == -1, upd(RC, (p, l)), RC),
                RS=upd(z3.If(l == -1, RS, upd(RS, (l, r))), (ch, -1)),
                LS=upd(z3.If(r == -1, LS, upd(LS, (r, l))), (ch, -1)))


def _same(n, ptr, par, eff):
    return z3.And(n.arr(par) == eff["P"], n.arr(ptr["right_child"]) == eff["RC"], n.arr(ptr["num_children"]) == eff["NC"],
                  n.arr(ptr["left_child"]) == eff["LC"], n.arr(ptr["left_sib"]) == eff["LS"], n.arr(ptr["right_sib"]) == eff["RS"])


def links_in_range(h, ptr, N):
    cs = []
    for a in ("left_child", "right_child", "left_sib", "right_sib"):
        A = h.arr(ptr[a])
        cs.append(z3.ForAll([i], z3.Implies(z3.And(0 <= i, i < N), z3.And(-1 <= A[i], A[i] < N))))
    return z3.And(*cs)


@contract("trees.c", "tsk_tree_insert_branch", ["self", "p", "c", "parent"])
def insert_branch(c):
    self_, h, N, ptr, par = setup(c)
    p, ch = c.arg("p"), c.arg("c")
    c.requires(z3.And(0 <= p, p < N, 0 <= ch, ch < N), "nodes_in_range")
    c.requires(links_in_range(h, ptr, N))
    LC, RC, LS, RS, NC, P = (h.arr(ptr["left_child"]), h.arr(ptr["right_child"]), h.arr(ptr["left_sib"]),
                             h.arr(ptr["right_sib"]), h.arr(ptr["num_children"]), h.arr(par))
    c.requires(NC[p] < (1 << 31) - 1)
    def post():
        return _same(c.new, ptr, par, insert_effect(LC, RC, LS, RS, NC, P, p, ch))
    c.ensures(post, "c_appended_as_last_child_of_p_everything_else_unchanged")
    for a in ARR:
        c.assigns(ptr[a])
    c.assigns(par)


@contract("trees.c", "tsk_tree_remove_branch", ["self", "p", "c", "parent"])
def remove_branch(c):
    self_, h, N, ptr, par = setup(c)
    p, ch = c.arg("p"), c.arg("c")
    c.requires(z3.And(0 <= p, p < N, 0 <= ch, ch < N), "nodes_in_range")
    c.requires(links_in_range(h, ptr, N))
    LC, RC, LS, RS, NC, P = (h.arr(ptr["left_child"]), h.arr(ptr["right_child"]), h.arr(ptr["left_sib"]),
                             h.arr(ptr["right_sib"]), h.arr(ptr["num_children"]), h.arr(par))
    c.requires(NC[p] > -(1 << 31))
    def post():
        return _same(c.new, ptr, par, remove_effect(LC, RC, LS, RS, NC, P, p, ch))
    c.ensures(post, "c_unlinked_from_the_child_list_of_p_everything_else_unchanged")
    for a in ARR:
        c.assigns(ptr[a])
    c.assigns(par)


@contract("trees.c", "tsk_tree_insert_root", ["self", "root", "parent"])
def insert_root(c):
    self_, h, N, ptr, par = setup(c)
    root = c.arg("root")
    vr = h.get(self_, "virtual_root")
    c.requires(z3.And(vr == N - 1, 0 <= root, root < N), "root_in_range")
    c.requires(links_in_range(h, ptr, N))
    LC, RC, LS, RS, NC, P = (h.arr(ptr["left_child"]), h.arr(ptr["right_child"]), h.arr(ptr["left_sib"]),
                             h.arr(ptr["right_sib"]), h.arr(ptr["num_children"]), h.arr(par))
    c.requires(NC[vr] < (1 << 31) - 1)
    def post():
        return _same(c.new, ptr, par, insert_effect(LC, RC, LS, RS, NC, P, vr, root, parent_value=-1))
    c.ensures(post, "root_appended_to_the_virtual_roots_children_with_null_parent")
    for a in ARR:
        c.assigns(ptr[a])
    c.assigns(par)


@contract("trees.c", "tsk_tree_remove_root", ["self", "root", "parent"])
def remove_root(c):
    self_, h, N, ptr, par = setup(c)
    root = c.arg("root")
    vr = h.get(self_, "virtual_root")
    c.requires(z3.And(vr == N - 1, 0 <= root, root < N), "root_in_range")
    c.requires(links_in_range(h, ptr, N))
    LC, RC, LS, RS, NC, P = (h.arr(ptr["left_child"]), h.arr(ptr["right_child"]), h.arr(ptr["left_sib"]),
                             h.arr(ptr["right_sib"]), h.arr(ptr["num_children"]), h.arr(par))
    c.requires(NC[vr] > -(1 << 31))
    def post():
        return _same(c.new, ptr, par, remove_effect(LC, RC, LS, RS, NC, P, vr, root))
    c.ensures(post, "root_unlinked_from_the_virtual_root")
    for a in ARR:
        c.assigns(ptr[a])
    c.assigns(par)
