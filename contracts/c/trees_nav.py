"""C06 (and C09): tree navigation entry points of trees.c."""
import z3
from vf.registry import contract
from vf.cvc import Dbl, d_isfinite, d_lt, d_le, d_gt, d_ge, d_eq, d_ne, d_const, d_isnan
from .common import TC, i, j, k, in_ids, flag
from .trees_position import TS, Pos, canon, ZERO

TREE_ARRAYS = ["parent", "left_child", "right_child", "left_sib", "right_sib", "num_children", "edge"]
COUNT_ARRAYS = ["num_samples", "num_tracked_samples"]
LIST_ARRAYS = ["left_sample", "right_sample"]


def tree_rep(h, t, E):
    """shape of an initialised tsk_tree_t (what tsk_tree_init allocates)"""
    ts = h.get(t, "tree_sequence")
    S = TS(h, ts)
    N = h.get(t, "num_nodes") + 1
    opts = h.get(t, "options")
    cs = [z3.Not(h.isnull(ts)), h.len(ts) >= 1, ts.off == 0,
          z3.Not(h.isnull(S.tables)), h.len(S.tables) >= 1, S.tables.off == 0,
          h.get(t, "num_nodes") == S.T.nodes.n, S.T.nodes.n <= (1 << 31) - 2, S.T.nodes.n >= 0,
          h.get(t, "virtual_root") == h.get(t, "num_nodes")]
    for a in TREE_ARRAYS:
        p = h.get(t, a)
        cs += [z3.Not(h.isnull(p)), p.off == 0, h.len(p) >= N]
    for a in COUNT_ARRAYS:
        p = h.get(t, a)
        cs += [z3.Implies(z3.Not(flag(opts, E.TSK_NO_SAMPLE_COUNTS)),
                          z3.And(z3.Not(h.isnull(p)), p.off == 0, h.len(p) >= N))]
    for a in LIST_ARRAYS:
        p = h.get(t, a)
        cs += [z3.Implies(flag(opts, E.TSK_SAMPLE_LISTS), z3.And(z3.Not(h.isnull(p)), p.off == 0, h.len(p) >= N))]
    p = h.get(t, "next_sample")
    cs += [z3.Implies(flag(opts, E.TSK_SAMPLE_LISTS),
                      z3.And(z3.Not(h.isnull(p)), p.off == 0, h.len(p) >= h.get(ts, "num_samples")))]
    cs += [h.get(ts, "num_samples") >= 0, h.get(ts, "num_samples") <= (1 << 31) - 1]
    return z3.And(*cs)


@contract("trees.c", "tsk_treeseq_get_sequence_length", ["self"])
def get_sequence_length(c):
    self_ = c.arg("self")
    h = c.old
    tables = h.get(self_, "tables")
    c.requires(z3.And(z3.Not(h.isnull(self_)), h.len(self_) >= 1, self_.off == 0,
                      z3.Not(h.isnull(tables)), h.len(tables) >= 1, tables.off == 0))
    c.ensures(lambda: c.result == h.get(tables, "sequence_length"), "value")
    c.assigns()


@contract("trees.c", "tsk_tree_position_in_interval", ["self", "x"])
def position_in_interval(c):
    self_, x = c.arg("self"), c.arg("x")
    h = c.old
    c.requires(z3.Not(h.isnull(self_)))
    c.ensures(lambda: (c.result != 0) == z3.And(d_le(h.get(self_, "interval.left"), x),
                                                d_lt(x, h.get(self_, "interval.right"))), "iff")
    c.assigns()


# ---- assumed contracts (bodies not verified yet; listed as assumptions in the evidence) -----------------
@contract("trees.c", "tsk_tree_seek_from_null", ["self", "x", "TSK_UNUSED_options"], assumed=True)
def seek_from_null(c):
    self_, x = c.arg("self"), c.arg("x")
    h = c.old
    L = h.get(h.get(h.get(self_, "tree_sequence"), "tables"), "sequence_length")
    c.requires(z3.And(h.get(self_, "index") == -1, d_ge(x, ZERO), d_lt(x, L)), "x_in_range_from_null")
    c.assigns(self_)
    c.ensures(lambda: z3.And(z3.Or(c.result == 0, c.result < 0), c.result != c.E.TSK_ERR_SEEK_OUT_OF_BOUNDS))


@contract("trees.c", "tsk_tree_seek_linear", ["self", "x", "TSK_UNUSED_options"], assumed=True)
def seek_linear(c):
    self_, x = c.arg("self"), c.arg("x")
    h = c.old
    L = h.get(h.get(h.get(self_, "tree_sequence"), "tables"), "sequence_length")
    # without 0 <= x < L the next/prev loop has no tree to stop at (it cycles through the null state)
    c.requires(z3.And(h.get(self_, "index") != -1, d_ge(x, ZERO), d_lt(x, L)), "x_in_range_so_loop_terminates")
    c.assigns(self_)
    c.ensures(lambda: z3.And(z3.Or(c.result == 0, c.result < 0), c.result != c.E.TSK_ERR_SEEK_OUT_OF_BOUNDS))


@contract("trees.c", "tsk_tree_seek", ["self", "x", "options"], cct=0)
def tree_seek(c):
    self_, x = c.arg("self"), c.arg("x")
    E = c.E
    h = c.old
    c.requires(z3.Not(h.isnull(self_)))
    c.requires(tree_rep(h, self_, E))
    S = TS(h, h.get(self_, "tree_sequence"))
    c.requires(S.wf())
    c.alias(h.sub(self_, "tree_pos"), "tree_sequence", self_, "tree_sequence")
    c.requires(canon(S, Pos(h, h.sub(self_, "tree_pos"))))
    c.requires(h.get(self_, "index") == h.get(self_, "tree_pos.index"))
    L = h.get(h.get(h.get(self_, "tree_sequence"), "tables"), "sequence_length")
    inside = z3.And(d_ge(x, ZERO), d_lt(x, L))
    c.ensures(lambda: (c.result == E.TSK_ERR_SEEK_OUT_OF_BOUNDS) == z3.Not(inside), "out_of_bounds_iff")
    c.assigns(self_)


@contract("trees.c", "tsk_tree_seek_index", ["self", "tree", "options"], cct=0)
def tree_seek_index(c):
    self_, tree = c.arg("self"), c.arg("tree")
    E = c.E
    h = c.old
    c.requires(z3.Not(h.isnull(self_)))
    c.requires(tree_rep(h, self_, E))
    ts = h.get(self_, "tree_sequence")
    S = TS(h, ts)
    c.requires(S.wf())
    c.alias(h.sub(self_, "tree_pos"), "tree_sequence", self_, "tree_sequence")
    c.requires(canon(S, Pos(h, h.sub(self_, "tree_pos"))))
    c.requires(h.get(self_, "index") == h.get(self_, "tree_pos.index"))
    c.ensures(lambda: (c.result == E.TSK_ERR_SEEK_OUT_OF_BOUNDS) == z3.Not(z3.And(0 <= tree, tree < S.num_trees)),
              "out_of_bounds_iff")
    c.assigns(self_)


@contract("trees.c", "tsk_tree_init", ["self", "tree_sequence", "options"], assumed=True)
def tree_init(c):
    self_, ts, options = c.arg("self"), c.arg("tree_sequence"), c.arg("options")
    h = c.old
    E = c.E
    c.requires(z3.Not(h.isnull(self_)))
    c.assigns(self_)
    c.sets_ptr(self_, "tree_sequence", ts)
    c.ensures(lambda: z3.Or(c.result == 0, c.result == E.TSK_ERR_NO_MEMORY, c.result == E.TSK_ERR_BAD_PARAM_VALUE))
    c.ensures(lambda: z3.Implies(c.result == 0, z3.And(c.new.get(self_, "options") == options,
                                                       tree_rep(c.new, self_, E))))


@contract("trees.c", "tsk_tree_copy", ["self", "dest", "options"], scenarios=["same_treeseq", "other_treeseq"])
def tree_copy(c):
    self_, dest, options = c.arg("self"), c.arg("dest"), c.arg("options")
    E = c.E
    h = c.old
    c.requires(z3.And(z3.Not(h.isnull(self_)), z3.Not(h.isnull(dest))))
    c.requires(tree_rep(h, self_, E))
    noinit = flag(options, E.TSK_NO_INIT)
    if c.scenario == "same_treeseq":
        c.alias(dest, "tree_sequence", self_, "tree_sequence")
    c.requires(z3.Implies(noinit, tree_rep(h, dest, E)))
    N = h.get(self_, "num_nodes") + 1
    scalars = ["interval.left", "interval.right", "left_index", "right_index", "direction", "index",
               "sites_length", "root_threshold", "num_edges",
               "tree_pos.index", "tree_pos.interval.left", "tree_pos.interval.right", "tree_pos.in.start",
               "tree_pos.in.stop", "tree_pos.out.start", "tree_pos.out.stop", "tree_pos.direction"]

    def same():
        n = c.new
        cs = [n.get(dest, f) == h.get(self_, f) for f in scalars]
        dopts = n.get(dest, "options")
        for a in TREE_ARRAYS:
            cs.append(z3.ForAll([i], z3.Implies(z3.And(0 <= i, i < N),
                                                n.arr(n.get(dest, a))[i] == h.arr(h.get(self_, a))[i])))
        for a in COUNT_ARRAYS:
            cs.append(z3.Implies(z3.Not(flag(dopts, E.TSK_NO_SAMPLE_COUNTS)),
                                 z3.ForAll([i], z3.Implies(z3.And(0 <= i, i < N),
                                                           n.arr(n.get(dest, a))[i] == h.arr(h.get(self_, a))[i]))))
        for a in LIST_ARRAYS:
            cs.append(z3.Implies(flag(dopts, E.TSK_SAMPLE_LISTS),
                                 z3.ForAll([i], z3.Implies(z3.And(0 <= i, i < N),
                                                           n.arr(n.get(dest, a))[i] == h.arr(h.get(self_, a))[i]))))
        return z3.Implies(c.result == 0, z3.And(*cs))
    c.ensures(same, "copy_equals_source")
    if c.scenario == "other_treeseq":
        c.ensures(lambda: z3.Implies(noinit, c.result == E.TSK_ERR_BAD_PARAM_VALUE), "different_treeseq_rejected")
    c.assigns(dest)
    for a in TREE_ARRAYS + COUNT_ARRAYS + LIST_ARRAYS + ["next_sample"]:
        c.assigns(h.get(dest, a))
