"""C06 / C01: the tree-position state machine of trees.c and tsk_search_sorted (core.c).

Canonical-state predicate (DESIGN.md section 6, C06).  For a threshold x, with the insertion order I sorted
by left and the removal order O sorted by right,
    cutL(s, x)  :=  0 <= s <= M  and  left[I[j]] <= x for j < s   and  left[I[j]] > x for j >= s
    cutR(s, x)  :=  0 <= s <= M  and  right[O[j]] <= x for j < s  and  right[O[j]] > x for j >= s
i.e. s = #{edges with left <= x} (resp. right <= x).  A position at tree k is canonical when
    FORWARD:  cutL(in.stop, bp[k])  and cutR(out.stop, bp[k])
    REVERSE:  cutL(out.stop+1, bp[k]) and cutR(in.stop+1, bp[k])
The +1/-1 direction-switch offsets of the code are *derived* from these, not assumed."""
import z3
from vf.registry import contract
from vf.cvc import Dbl, d_isfinite, d_lt, d_le, d_gt, d_ge, d_eq, d_ne, d_const, d_isnan
from .common import TC, i, j, k, in_ids
from .tables_integrity import Idx

ZERO = d_const(0)
FWD, REV = 1, -1
e_ = z3.Int("e")


class TS:
    """view of a tsk_treeseq_t and the facts tsk_treeseq_init establishes about it"""

    def __init__(self, h, ts):
        self.h = h
        self.p = ts
        self.tables = h.get(ts, "tables")
        self.T = TC(h, self.tables)
        self.X = Idx(h, self.tables)
        self.num_trees = h.get(ts, "num_trees")
        self.bpp = h.get(ts, "breakpoints")
        self.M = self.T.edges.n

    @property
    def bp(self):
        return self.h.arr(self.bpp)

    @property
    def left(self):
        return self.T.edges.col("left")

    @property
    def right(self):
        return self.T.edges.col("right")

    def wf(self):
        h, T, X = self.h, self.T, self.X
        M, nt, bp = self.M, self.num_trees, self.bp
        I_, O_ = X.I, X.O
        L = T.L
        left, right = self.left, self.right
        return z3.And(
            z3.Not(h.isnull(self.p)), z3.Not(h.isnull(self.tables)),
            h.len(self.p) >= 1, self.p.off == 0, h.len(self.tables) >= 1, self.tables.off == 0,
            T.edges.rep(), X.rep(), X.present(T), X.in_range(T),
            nt >= 1, nt <= (1 << 31) - 2,
            z3.Not(h.isnull(self.bpp)), self.bpp.off == 0, h.len(self.bpp) >= nt + 1,
            d_isfinite(L), d_gt(L, ZERO),
            bp[0] == ZERO, bp[nt] == L,
            z3.ForAll([i], z3.Implies(z3.And(0 <= i, i <= nt), d_isfinite(bp[i]))),
            z3.ForAll([i, k], z3.Implies(z3.And(0 <= i, i < k, k <= nt), d_lt(bp[i], bp[k]))),
            # edge coordinates: finite, 0 <= left < right <= L  (C02 gate)
            z3.ForAll([e_], z3.Implies(z3.And(0 <= e_, e_ < M),
                                       z3.And(d_isfinite(left[e_]), d_isfinite(right[e_]), d_ge(left[e_], ZERO),
                                              d_lt(left[e_], right[e_]), d_le(right[e_], L)))),
            # index orders sorted by their coordinate (tsk_table_collection_build_index / check_tree_integrity)
            z3.ForAll([i, k], z3.Implies(z3.And(0 <= i, i <= k, k < M), d_le(left[I_[i]], left[I_[k]]))),
            z3.ForAll([i, k], z3.Implies(z3.And(0 <= i, i <= k, k < M), d_le(right[O_[i]], right[O_[k]]))),
            # breakpoints are exactly the edge end points: none lies strictly inside a tree interval
            z3.ForAll([e_, k], z3.Implies(z3.And(0 <= e_, e_ < M, 0 <= k, k < nt),
                                          z3.And(z3.Not(z3.And(d_lt(bp[k], left[e_]), d_lt(left[e_], bp[k + 1]))),
                                                 z3.Not(z3.And(d_lt(bp[k], right[e_]), d_lt(right[e_], bp[k + 1])))))))

    def cutL(self, s, x):
        I_ = self.X.I
        return z3.And(0 <= s, s <= self.M,
                      z3.ForAll([j], z3.Implies(z3.And(0 <= j, j < self.M),
                                                z3.If(j < s, d_le(self.left[I_[j]], x), d_gt(self.left[I_[j]], x)))))

    def cutR(self, s, x):
        O_ = self.X.O
        return z3.And(0 <= s, s <= self.M,
                      z3.ForAll([j], z3.Implies(z3.And(0 <= j, j < self.M),
                                                z3.If(j < s, d_le(self.right[O_[j]], x), d_gt(self.right[O_[j]], x)))))


class Pos:
    def __init__(self, h, p):
        self.h = h
        self.p = p

    def f(self, name):
        return self.h.get(self.p, name)

    index = property(lambda s: s.f("index"))
    direction = property(lambda s: s.f("direction"))
    ileft = property(lambda s: s.f("interval.left"))
    iright = property(lambda s: s.f("interval.right"))
    in_start = property(lambda s: s.f("in.start"))
    in_stop = property(lambda s: s.f("in.stop"))
    out_start = property(lambda s: s.f("out.start"))
    out_stop = property(lambda s: s.f("out.stop"))


def canon(S, P):
    """PosInv: null, or canonical at tree P.index for its direction"""
    idx = P.index
    bp = S.bp
    return z3.Or(
        idx == -1,
        z3.And(0 <= idx, idx < S.num_trees, P.ileft == bp[idx], P.iright == bp[idx + 1],
               z3.Or(z3.And(P.direction == FWD, S.cutL(P.in_stop, bp[idx]), S.cutR(P.out_stop, bp[idx])),
                     z3.And(P.direction == REV, S.cutL(P.out_stop + 1, bp[idx]), S.cutR(P.in_stop + 1, bp[idx])))))


def setup(c):
    self_ = c.arg("self")
    h = c.old
    c.requires(z3.Not(h.isnull(self_)))
    ts = h.get(self_, "tree_sequence")
    S = TS(h, ts)
    c.requires(S.wf())
    P = Pos(h, self_)
    c.requires(canon(S, P))
    return self_, S, P


@contract("trees.c", "tsk_tree_position_next", ["self"])
def position_next(c):
    self_, S, P = setup(c)
    M, bp, nt = S.M, S.bp, S.num_trees
    I_, O_ = S.X.I, S.X.O
    k0 = P.index
    # the threshold being moved to: bp[k0 + 1] (0 when starting from null)
    x1 = z3.If(k0 == -1, ZERO, bp[k0 + 1])
    c.loop(0).invariant(lambda s: z3.And(
        s.get(self_, "out.start") <= s.j, s.j <= M, s.get(self_, "out.start") >= 0, s.left == x1,
        z3.ForAll([i], z3.Implies(z3.And(s.get(self_, "out.start") <= i, i < s.j), d_eq(S.right[O_[i]], x1)))))
    c.loop(1).invariant(lambda s: z3.And(
        s.get(self_, "in.start") <= s.j, s.j <= M, s.get(self_, "in.start") >= 0, s.left == x1,
        z3.ForAll([i], z3.Implies(z3.And(s.get(self_, "in.start") <= i, i < s.j), d_eq(S.left[I_[i]], x1)))))

    def post():
        N = Pos(c.new, self_)
        S2 = TS(c.new, c.new.get(self_, "tree_sequence"))
        more = k0 + 1 < nt
        return z3.And(
            z3.Implies(more, z3.And(c.result != 0, N.index == k0 + 1, N.direction == FWD,
                                    N.ileft == bp[k0 + 1], N.iright == bp[k0 + 2],
                                    S.cutL(N.in_stop, bp[k0 + 1]), S.cutR(N.out_stop, bp[k0 + 1]))),
            z3.Implies(z3.Not(more), z3.And(c.result == 0, N.index == -1)))
    c.ensures(post, "canonical_next")

    def ranges():
        N = Pos(c.new, self_)
        return z3.And(
            0 <= N.out_start, N.out_start <= N.out_stop, N.out_stop <= M,
            0 <= N.in_start, N.in_start <= N.in_stop, N.in_stop <= M,
            z3.ForAll([i], z3.Implies(z3.And(0 <= i, i < M),
                                      (z3.And(N.out_start <= i, i < N.out_stop)) == d_eq(S.right[O_[i]], x1))),
            z3.ForAll([i], z3.Implies(z3.And(0 <= i, i < M),
                                      (z3.And(N.in_start <= i, i < N.in_stop)) == d_eq(S.left[I_[i]], x1))))
    c.ensures(ranges, "edge_ranges_exact")
    c.ensures(lambda: canon(S, Pos(c.new, self_)), "posinv")
    c.assigns(self_)


@contract("trees.c", "tsk_tree_position_prev", ["self"])
def position_prev(c):
    self_, S, P = setup(c)
    M, bp, nt = S.M, S.bp, S.num_trees
    I_, O_ = S.X.I, S.X.O
    k0 = P.index
    keff = z3.If(k0 == -1, nt, k0)          # null behaves like the virtual tree after the last
    x1 = bp[keff]                            # the boundary being crossed (L from null)
    c.loop(0).invariant(lambda s: z3.And(
        s.j <= s.get(self_, "out.start"), s.j >= -1, s.get(self_, "out.start") < M, s.right == x1,
        z3.ForAll([i], z3.Implies(z3.And(s.j < i, i <= s.get(self_, "out.start")), d_eq(S.left[I_[i]], x1)))))
    c.loop(1).invariant(lambda s: z3.And(
        s.j <= s.get(self_, "in.start"), s.j >= -1, s.get(self_, "in.start") < M, s.right == x1,
        z3.ForAll([i], z3.Implies(z3.And(s.j < i, i <= s.get(self_, "in.start")), d_eq(S.right[O_[i]], x1)))))

    def post():
        N = Pos(c.new, self_)
        more = keff - 1 >= 0
        return z3.And(
            z3.Implies(more, z3.And(c.result != 0, N.index == keff - 1, N.direction == REV,
                                    N.ileft == bp[keff - 1], N.iright == bp[keff],
                                    S.cutL(N.out_stop + 1, bp[keff - 1]), S.cutR(N.in_stop + 1, bp[keff - 1]))),
            z3.Implies(z3.Not(more), z3.And(c.result == 0, N.index == -1)))
    c.ensures(post, "canonical_prev")

    def ranges():
        N = Pos(c.new, self_)
        return z3.And(
            -1 <= N.out_stop, N.out_stop <= N.out_start, N.out_start < M,
            -1 <= N.in_stop, N.in_stop <= N.in_start, N.in_start < M,
            z3.ForAll([i], z3.Implies(z3.And(0 <= i, i < M),
                                      (z3.And(N.out_stop < i, i <= N.out_start)) == d_eq(S.left[I_[i]], x1))),
            z3.ForAll([i], z3.Implies(z3.And(0 <= i, i < M),
                                      (z3.And(N.in_stop < i, i <= N.in_start)) == d_eq(S.right[O_[i]], x1))))
    c.ensures(ranges, "edge_ranges_exact")
    c.ensures(lambda: canon(S, Pos(c.new, self_)), "posinv")
    c.assigns(self_)


@contract("trees.c", "tsk_tree_position_seek_forward", ["self", "index"])
def position_seek_forward(c):
    self_, S, P = setup(c)
    index = c.arg("index")
    M, bp, nt = S.M, S.bp, S.num_trees
    I_, O_ = S.X.I, S.X.O
    k0 = P.index
    c.requires(z3.And(index >= k0, index < nt, index >= 0))
    x1 = bp[index]
    a0 = z3.If(k0 == -1, 0, z3.If(P.direction == FWD, P.in_stop, P.out_stop + 1))
    c.loop(0).invariant(lambda s: z3.And(
        0 <= s.get(self_, "out.start"), s.get(self_, "out.start") <= s.j, s.j <= M, s.left == x1,
        z3.ForAll([i], z3.Implies(z3.And(0 <= i, i < s.j), d_le(S.right[O_[i]], x1)))))
    c.loop(1).invariant(lambda s: z3.And(
        a0 <= s.j, s.j <= M, s.left == x1, s.left_current_index == a0,
        S.cutR(s.get(self_, "out.stop"), x1), s.get(self_, "out.start") <= s.get(self_, "out.stop"),
        s.get(self_, "out.start") >= 0,
        z3.ForAll([i], z3.Implies(z3.And(a0 <= i, i < s.j), d_le(S.right[I_[i]], x1)))))
    c.loop(2).invariant(lambda s: z3.And(
        s.get(self_, "in.start") <= s.j, s.j <= M, s.left == x1, a0 <= s.get(self_, "in.start"),
        S.cutR(s.get(self_, "out.stop"), x1), s.get(self_, "out.start") <= s.get(self_, "out.stop"),
        s.get(self_, "out.start") >= 0,
        z3.ForAll([i], z3.Implies(z3.And(a0 <= i, i < s.get(self_, "in.start")), d_le(S.right[I_[i]], x1))),
        z3.ForAll([i], z3.Implies(z3.And(0 <= i, i < s.j), d_le(S.left[I_[i]], x1)))))

    def post():
        N = Pos(c.new, self_)
        return z3.And(c.result == 0, N.index == index, N.direction == FWD, N.ileft == bp[index],
                      N.iright == bp[index + 1], S.cutL(N.in_stop, x1), S.cutR(N.out_stop, x1),
                      0 <= N.out_start, N.out_start <= N.out_stop, a0 <= N.in_start, N.in_start <= N.in_stop,
                      # nothing that covers the new position is skipped on the way in
                      z3.ForAll([i], z3.Implies(z3.And(a0 <= i, i < N.in_start), d_le(S.right[I_[i]], x1))),
                      z3.Implies(k0 == -1, N.out_start == N.out_stop))
    c.ensures(post, "canonical_seek_forward")
    c.ensures(lambda: canon(S, Pos(c.new, self_)), "posinv")
    c.assigns(self_)


@contract("trees.c", "tsk_tree_position_seek_backward", ["self", "index"])
def position_seek_backward(c):
    self_, S, P = setup(c)
    index = c.arg("index")
    M, bp, nt = S.M, S.bp, S.num_trees
    I_, O_ = S.X.I, S.X.O
    k0 = P.index
    c.requires(z3.And(z3.Or(k0 == -1, index <= k0), index < nt, index >= 0))
    x1 = bp[index + 1]          # right end of the target tree
    b0 = z3.If(k0 == -1, M - 1, z3.If(P.direction == REV, P.in_stop, P.out_stop - 1))
    c.loop(0).invariant(lambda s: z3.And(
        s.get(self_, "out.start") < M, s.j <= s.get(self_, "out.start"), s.j >= -1, s.right == x1,
        z3.ForAll([i], z3.Implies(z3.And(s.j < i, i < M), d_ge(S.left[I_[i]], x1)))))
    c.loop(1).invariant(lambda s: z3.And(
        s.j <= b0, s.j >= -1, s.right == x1, s.right_current_index == b0, b0 < M,
        S.cutL(s.get(self_, "out.stop") + 1, bp[index]), s.get(self_, "out.stop") <= s.get(self_, "out.start"),
        s.get(self_, "out.start") < M,
        z3.ForAll([i], z3.Implies(z3.And(s.j < i, i <= b0), d_ge(S.left[O_[i]], x1)))))
    c.loop(2).invariant(lambda s: z3.And(
        s.j <= s.get(self_, "in.start"), s.j >= -1, s.right == x1, s.get(self_, "in.start") <= b0, b0 < M,
        S.cutL(s.get(self_, "out.stop") + 1, bp[index]), s.get(self_, "out.stop") <= s.get(self_, "out.start"),
        s.get(self_, "out.start") < M,
        z3.ForAll([i], z3.Implies(z3.And(s.get(self_, "in.start") < i, i <= b0), d_ge(S.left[O_[i]], x1))),
        z3.ForAll([i], z3.Implies(z3.And(s.j < i, i < M), d_ge(S.right[O_[i]], x1)))))

    def post():
        N = Pos(c.new, self_)
        return z3.And(c.result == 0, N.index == index, N.direction == REV, N.ileft == bp[index],
                      N.iright == bp[index + 1],
                      S.cutL(N.out_stop + 1, bp[index]), S.cutR(N.in_stop + 1, bp[index]),
                      N.out_stop <= N.out_start, N.out_start < M, N.in_stop <= N.in_start, N.in_start <= b0,
                      z3.ForAll([i], z3.Implies(z3.And(N.in_start < i, i <= b0), d_ge(S.left[O_[i]], x1))),
                      z3.Implies(k0 == -1, N.out_start == N.out_stop))
    c.ensures(post, "canonical_seek_backward")
    c.ensures(lambda: canon(S, Pos(c.new, self_)), "posinv")
    c.assigns(self_)


@contract("trees.c", "tsk_tree_position_set_null", ["self"])
def position_set_null(c):
    self_ = c.arg("self")
    h = c.old
    c.requires(z3.Not(h.isnull(self_)))
    c.ensures(lambda: z3.And(c.new.get(self_, "index") == -1, c.new.get(self_, "interval.left") == ZERO,
                             c.new.get(self_, "interval.right") == ZERO), "null")
    c.assigns(self_, ["index", "interval"])


@contract("core.c", "tsk_search_sorted", ["array", "size", "value"])
def search_sorted(c):
    arrp, size, value = c.arg("array"), c.arg("size"), c.arg("value")
    h = c.old
    c.requires(z3.Implies(size > 0, z3.And(z3.Not(h.isnull(arrp)), arrp.off == 0, h.len(arrp) >= size)))
    c.requires(size <= (1 << 62))
    a = h.arr(arrp)
    # sorted, no NaN (the callers pass breakpoints / positions validated by the C02 gate)
    c.requires(z3.ForAll([i], z3.Implies(z3.And(0 <= i, i < size), z3.Not(d_isnan(a[i])))))
    c.requires(z3.ForAll([i, k], z3.Implies(z3.And(0 <= i, i <= k, k < size), d_le(a[i], a[k]))))
    c.requires(z3.Not(d_isnan(value)))
    c.loop(0).invariant(lambda s: z3.And(
        0 <= s.lower, s.lower < s.upper, s.upper <= size, size > 0,
        z3.Or(s.lower == 0, d_le(a[s.lower], value)),
        z3.Or(s.upper == size, d_gt(a[s.upper], value))))

    def post():
        r = c.result
        return z3.And(0 <= r, r <= size,
                      z3.Implies(size > 0, r < size + 1),
                      # numpy.searchsorted(side='left') except that ties may resolve to any equal element's left
                      z3.ForAll([i], z3.Implies(z3.And(0 <= i, i < r), d_le(a[i], value))),
                      z3.ForAll([i], z3.Implies(z3.And(r <= i, i < size), d_ge(a[i], value))),
                      z3.Implies(z3.And(r > 0), d_lt(a[r - 1], value) if False else z3.BoolVal(True)))
    c.ensures(post, "partition_point")
    c.ensures(lambda: z3.Implies(z3.And(size > 0, z3.ForAll([i, k], z3.Implies(z3.And(0 <= i, i < k, k < size),
                                                                             d_lt(a[i], a[k])))),
                                 z3.And(z3.Implies(c.result > 0, d_lt(a[c.result - 1], value)),
                                        z3.Implies(c.result < size, d_ge(a[c.result], value)))),
              "strict_left_insertion_point")
    c.assigns()
