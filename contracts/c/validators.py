"""C09: argument validators.  Identifier rule from the property statement, as a contract on each validator:
accepted  <=>  every id is in [0, n)  (<= n only where the virtual root is a documented argument), and every
array access in the validator itself is in bounds under the representation invariant alone."""
import z3
from vf.registry import contract
from vf.cvc import Dbl, d_isfinite, d_lt, d_le, d_gt, d_ge, d_eq, d_ne, d_const, d_isnan
from .common import TC, i, j, k, in_ids, flag, MAX_ROWS

ZERO = d_const(0)
psum = z3.Function("psum", z3.IntSort(), z3.IntSort())


def tables_of(h, p):
    t = h.get(p, "tables")
    return t, z3.And(z3.Not(h.isnull(t)), h.len(t) >= 1, t.off == 0)


def prefix_sums(sizes, n):
    """psum(q) = sizes[0] + ... + sizes[q-1]"""
    return z3.And(psum(0) == 0, z3.ForAll([i], z3.Implies(z3.And(0 <= i, i < n), psum(i + 1) == psum(i) + sizes[i])),
                  z3.ForAll([i, k], z3.Implies(z3.And(0 <= i, i <= k, k <= n), psum(i) <= psum(k))))


# ------------------------------------------------------------------------------------------ IBD finder
def ibd_rep(h, self_):
    t, ok = tables_of(h, self_)
    T = TC(h, t)
    ss = h.get(self_, "sample_set_id")
    return T, ss, z3.And(ok, T.nodes.n >= 0, T.nodes.n <= MAX_ROWS,
                         z3.Not(h.isnull(ss)), ss.off == 0, h.len(ss) == T.nodes.n)


@contract("tables.c", "tsk_ibd_finder_init_samples_from_set", ["self", "samples", "num_samples"])
def ibd_init_samples_from_set(c):
    self_, sp, n = c.arg("self"), c.arg("samples"), c.arg("num_samples")
    E = c.E
    h = c.old
    c.requires(z3.Not(h.isnull(self_)))
    T, ss, rep = ibd_rep(h, self_)
    c.requires(rep)
    c.requires(z3.Implies(n > 0, z3.And(z3.Not(h.isnull(sp)), sp.off == 0, h.len(sp) >= n)))
    samples = h.arr(sp)
    nn = T.nodes.n
    c.loop(0).invariant(lambda s: z3.And(0 <= s.j, s.j <= n, s.ret == 0,
                                         z3.ForAll([i], z3.Implies(z3.And(0 <= i, i < s.j), in_ids(samples[i], nn)))))
    c.ensures(lambda: z3.Implies(c.result == 0, z3.ForAll([i], z3.Implies(z3.And(0 <= i, i < n),
                                                                        in_ids(samples[i], nn)))), "accepted_ids_in_range")
    c.ensures(lambda: z3.Or(c.result == 0, c.result == E.TSK_ERR_NODE_OUT_OF_BOUNDS,
                            c.result == E.TSK_ERR_DUPLICATE_SAMPLE), "codes")
    c.assigns(ss)


@contract("tables.c", "tsk_ibd_finder_init_samples_from_nodes", ["self"])
def ibd_init_samples_from_nodes(c):
    """C19: the default sample set of ibd_segments is exactly the nodes whose flags have the sample BIT set (other flag
    bits do not matter); every other entry of sample_set_id is left as it was"""
    self_ = c.arg("self")
    h, E = c.old, c.E
    c.requires(z3.Not(h.isnull(self_)))
    T, ss, rep = ibd_rep(h, self_)
    c.requires(rep)
    c.requires(T.nodes.rep())
    nn = T.nodes.n
    fl = T.nodes.col("flags")
    ss0 = h.arr(ss)
    want = lambda a, q: a[q] == z3.If(flag(fl[q], E.TSK_NODE_IS_SAMPLE), 0, ss0[q])
    c.loop(0).invariant(lambda s: z3.And(0 <= s.u, s.u <= nn,
                                         z3.ForAll([i], z3.Implies(z3.And(0 <= i, i < s.u), want(s.arr(ss), i))),
                                         z3.ForAll([i], z3.Implies(z3.And(s.u <= i, i < nn), s.arr(ss)[i] == ss0[i]))))
    c.ensures(lambda: z3.ForAll([i], z3.Implies(z3.And(0 <= i, i < nn), want(c.new.arr(ss), i))), "samples_are_the_nodes_with_the_sample_bit")
    c.assigns(ss)


@contract("tables.c", "tsk_ibd_finder_add_sample_ancestry", ["self"], assumed=True)
def ibd_add_sample_ancestry(c):
    self_ = c.arg("self")
    c.assigns(self_)
    c.ensures(lambda: z3.Or(c.result == 0, c.result == c.E.TSK_ERR_NO_MEMORY))


@contract("tables.c", "tsk_ibd_finder_init_between", ["self", "num_sample_sets", "sample_set_sizes", "sample_sets"])
def ibd_init_between(c):
    self_, ns, szp, sp = (c.arg("self"), c.arg("num_sample_sets"), c.arg("sample_set_sizes"), c.arg("sample_sets"))
    E = c.E
    h = c.old
    c.requires(z3.Not(h.isnull(self_)))
    T, ss, rep = ibd_rep(h, self_)
    c.requires(rep)
    c.requires(z3.Implies(ns > 0, z3.And(z3.Not(h.isnull(szp)), szp.off == 0, h.len(szp) >= ns)))
    sizes = h.arr(szp)
    c.requires(prefix_sums(sizes, ns))
    c.requires(z3.Implies(psum(ns) > 0, z3.And(z3.Not(h.isnull(sp)), sp.off == 0, h.len(sp) >= psum(ns))))
    c.requires(psum(ns) < (1 << 62))
    c.requires(ns <= MAX_ROWS)
    sets = h.arr(sp)
    nn = T.nodes.n
    good = lambda q: in_ids(sets[q], nn)
    c.loop(0).invariant(lambda s: z3.And(0 <= s.j, s.j <= ns, s.ret == 0, s.index == psum(s.j),
                                         z3.ForAll([i], z3.Implies(z3.And(0 <= i, i < s.index), good(i)))))
    c.loop(1).invariant(lambda s: z3.And(0 <= s.j, s.j < ns, s.ret == 0, 0 <= s.k, s.k <= sizes[s.j],
                                         s.index == psum(s.j) + s.k,
                                         z3.ForAll([i], z3.Implies(z3.And(0 <= i, i < s.index), good(i)))))
    c.ensures(lambda: z3.Implies(c.result == 0, z3.ForAll([i], z3.Implies(z3.And(0 <= i, i < psum(ns)), good(i)))),
              "accepted_ids_in_range")
    c.assigns(ss)
    c.assigns(self_)


# ------------------------------------------------------------------------------------------ ancestor mapper
@contract("tables.c", "ancestor_mapper_add_ancestry", ["self", "input_id", "left", "right", "output_id"], assumed=True)
def ancestor_mapper_add_ancestry(c):
    self_, u = c.arg("self"), c.arg("input_id")
    h = c.old
    t, ok = tables_of(h, self_)
    c.requires(z3.And(0 <= u, u < h.get(h.sub(t, "nodes"), "num_rows")), "input_id_in_range")
    c.assigns(h.get(self_, "ancestor_map_head"))
    c.assigns(h.get(self_, "ancestor_map_tail"))
    c.ensures(lambda: z3.Or(c.result == 0, c.result == c.E.TSK_ERR_NO_MEMORY))


def am_rep(h, self_, arr):
    t, ok = tables_of(h, self_)
    T = TC(h, t)
    a = h.get(self_, arr)
    return T, a, z3.And(ok, T.nodes.n >= 0, T.nodes.n <= MAX_ROWS, z3.Not(h.isnull(a)), a.off == 0,
                        h.len(a) == T.nodes.n)


@contract("tables.c", "ancestor_mapper_init_samples", ["self", "samples"])
def ancestor_mapper_init_samples(c):
    self_, sp = c.arg("self"), c.arg("samples")
    E = c.E
    h = c.old
    c.requires(z3.Not(h.isnull(self_)))
    T, isp, rep = am_rep(h, self_, "is_sample")
    c.requires(rep)
    n = h.get(self_, "num_samples")
    c.requires(z3.Implies(n > 0, z3.And(z3.Not(h.isnull(sp)), sp.off == 0, h.len(sp) >= n)))
    samples = h.arr(sp)
    nn = T.nodes.n
    c.loop(0).invariant(lambda s: z3.And(0 <= s.j, s.j <= n, s.ret == 0,
                                         z3.ForAll([i], z3.Implies(z3.And(0 <= i, i < s.j), in_ids(samples[i], nn)))))
    c.ensures(lambda: z3.Implies(c.result == 0, z3.ForAll([i], z3.Implies(z3.And(0 <= i, i < n),
                                                                        in_ids(samples[i], nn)))), "accepted_ids_in_range")
    c.assigns(isp)
    c.assigns(h.get(self_, "ancestor_map_head"))
    c.assigns(h.get(self_, "ancestor_map_tail"))


@contract("tables.c", "ancestor_mapper_init_ancestors", ["self", "ancestors"])
def ancestor_mapper_init_ancestors(c):
    self_, sp = c.arg("self"), c.arg("ancestors")
    E = c.E
    h = c.old
    c.requires(z3.Not(h.isnull(self_)))
    T, isp, rep = am_rep(h, self_, "is_ancestor")
    c.requires(rep)
    n = h.get(self_, "num_ancestors")
    c.requires(z3.Implies(n > 0, z3.And(z3.Not(h.isnull(sp)), sp.off == 0, h.len(sp) >= n)))
    anc = h.arr(sp)
    nn = T.nodes.n
    c.loop(0).invariant(lambda s: z3.And(0 <= s.j, s.j <= n, s.ret == 0,
                                         z3.ForAll([i], z3.Implies(z3.And(0 <= i, i < s.j), in_ids(anc[i], nn)))))
    c.ensures(lambda: z3.Implies(c.result == 0, z3.ForAll([i], z3.Implies(z3.And(0 <= i, i < n),
                                                                        in_ids(anc[i], nn)))), "accepted_ids_in_range")
    c.ensures(lambda: z3.Or(c.result == 0, c.result == E.TSK_ERR_NODE_OUT_OF_BOUNDS,
                            c.result == E.TSK_ERR_DUPLICATE_SAMPLE), "codes")
    c.assigns(isp)


# ------------------------------------------------------------------------------------------ trees.c
@contract("trees.c", "tsk_tree_check_node", ["self", "u"])
def tree_check_node(c):
    self_, u = c.arg("self"), c.arg("u")
    h = c.old
    c.requires(z3.Not(h.isnull(self_)))
    n = h.get(self_, "num_nodes")
    c.requires(z3.And(n >= 0, n <= MAX_ROWS - 1))
    # the virtual root (id == num_nodes) is a documented argument of the tree accessors
    c.ensures(lambda: (c.result == 0) == z3.And(0 <= u, u <= n), "iff_incl_virtual_root")
    c.ensures(lambda: z3.Or(c.result == 0, c.result == c.E.TSK_ERR_NODE_OUT_OF_BOUNDS), "codes")
    c.assigns()


@contract("trees.c", "tsk_treeseq_check_windows", ["self", "num_windows", "windows", "options"])
def check_windows(c):
    self_, n, wp, options = c.arg("self"), c.arg("num_windows"), c.arg("windows"), c.arg("options")
    E = c.E
    h = c.old
    c.requires(z3.Not(h.isnull(self_)))
    t, ok = tables_of(h, self_)
    c.requires(ok)
    c.requires(z3.And(z3.Not(h.isnull(wp)), wp.off == 0, h.len(wp) >= n + 1))
    c.requires(n < (1 << 62))
    w = h.arr(wp)
    L = h.get(t, "sequence_length")
    c.requires(z3.And(d_isfinite(L), d_gt(L, ZERO)))
    full = flag(options, E.TSK_REQUIRE_FULL_SPAN)
    c.loop(0).invariant(lambda s: z3.And(0 <= s.j, s.j <= n, n >= 1,
                                         z3.ForAll([i], z3.Implies(z3.And(0 <= i, i < s.j), d_lt(w[i], w[i + 1])))))
    spec = z3.And(n >= 1,
                  z3.If(full, z3.And(d_eq(w[0], ZERO), d_eq(w[n], L)), z3.And(d_ge(w[0], ZERO), d_le(w[n], L))),
                  z3.ForAll([i], z3.Implies(z3.And(0 <= i, i < n), d_lt(w[i], w[i + 1]))))
    c.ensures(lambda: (c.result == 0) == spec, "accepted_iff_increasing_within_span")
    c.ensures(lambda: z3.Or(c.result == 0, c.result == E.TSK_ERR_BAD_NUM_WINDOWS, c.result == E.TSK_ERR_BAD_WINDOWS),
              "codes")
    c.assigns()


@contract("trees.c", "tsk_treeseq_check_sample_sets", ["self", "num_sample_sets", "sample_set_sizes", "sample_sets"])
def check_sample_sets(c):
    self_, ns, szp, sp = (c.arg("self"), c.arg("num_sample_sets"), c.arg("sample_set_sizes"), c.arg("sample_sets"))
    E = c.E
    h = c.old
    c.requires(z3.Not(h.isnull(self_)))
    t, ok = tables_of(h, self_)
    c.requires(ok)
    T = TC(h, t)
    nn = T.nodes.n
    simp = h.get(self_, "sample_index_map")
    c.requires(z3.And(nn >= 0, nn <= MAX_ROWS, z3.Not(h.isnull(simp)), simp.off == 0, h.len(simp) >= nn))
    c.requires(z3.Implies(ns > 0, z3.And(z3.Not(h.isnull(szp)), szp.off == 0, h.len(szp) >= ns)))
    sizes = h.arr(szp)
    c.requires(prefix_sums(sizes, ns))
    c.requires(z3.Implies(psum(ns) > 0, z3.And(z3.Not(h.isnull(sp)), sp.off == 0, h.len(sp) >= psum(ns))))
    c.requires(z3.And(psum(ns) < (1 << 62), ns < (1 << 62)))
    sets = h.arr(sp)
    sim = h.arr(simp)
    good = lambda q: z3.And(in_ids(sets[q], nn), sim[sets[q]] != -1)
    c.loop(0).invariant(lambda s: z3.And(0 <= s.k, s.k <= ns, s.ret == 0, s.j == psum(s.k), ns > 0,
                                         z3.ForAll([i], z3.Implies(z3.And(0 <= i, i < s.k), sizes[i] > 0)),
                                         z3.ForAll([i], z3.Implies(z3.And(0 <= i, i < s.j), good(i)))))
    c.loop(1).invariant(lambda s: z3.And(0 <= s.k, s.k < ns, s.ret == 0, 0 <= s.l, s.l <= sizes[s.k],
                                         s.j == psum(s.k) + s.l, ns > 0, sizes[s.k] > 0,
                                         z3.ForAll([i], z3.Implies(z3.And(0 <= i, i < s.k), sizes[i] > 0)),
                                         z3.ForAll([i], z3.Implies(z3.And(0 <= i, i < s.j), good(i)))))
    spec = z3.And(ns > 0, z3.ForAll([i], z3.Implies(z3.And(0 <= i, i < ns), sizes[i] > 0)),
                  z3.ForAll([i], z3.Implies(z3.And(0 <= i, i < psum(ns)), good(i))))
    c.ensures(lambda: z3.Implies(c.result == 0, spec), "accepted_sets_valid")
    c.ensures(lambda: z3.Or(c.result == 0, c.result == E.TSK_ERR_INSUFFICIENT_SAMPLE_SETS,
                            c.result == E.TSK_ERR_EMPTY_SAMPLE_SET, c.result == E.TSK_ERR_NODE_OUT_OF_BOUNDS,
                            c.result == E.TSK_ERR_BAD_SAMPLES), "codes")
    c.assigns()


@contract("trees.c", "check_set_indexes", ["num_sets", "num_set_indexes", "set_indexes"])
def check_set_indexes(c):
    ns, n, p = c.arg("num_sets"), c.arg("num_set_indexes"), c.arg("set_indexes")
    h = c.old
    c.requires(z3.Implies(n > 0, z3.And(z3.Not(h.isnull(p)), p.off == 0, h.len(p) >= n)))
    c.requires(ns <= MAX_ROWS)
    a = h.arr(p)
    ok = lambda q: z3.And(0 <= a[q], a[q] < ns)
    c.loop(0).invariant(lambda s: z3.And(0 <= s.j, s.j <= n, s.ret == 0,
                                         z3.ForAll([i], z3.Implies(z3.And(0 <= i, i < s.j), ok(i)))))
    c.ensures(lambda: (c.result == 0) == z3.ForAll([i], z3.Implies(z3.And(0 <= i, i < n), ok(i))), "iff")
    c.assigns()


@contract("trees.c", "check_sites", ["sites", "num_sites", "num_site_rows"])
def check_sites(c):
    p, n, rows = c.arg("sites"), c.arg("num_sites"), c.arg("num_site_rows")
    h = c.old
    c.requires(z3.Implies(n > 0, z3.And(z3.Not(h.isnull(p)), p.off == 0, h.len(p) >= n)))
    c.requires(rows <= MAX_ROWS)
    a = h.arr(p)
    c.loop(0).invariant(lambda s: z3.And(0 <= s.i, s.i <= n - 1, n > 0, s.ret == 0,
                                         z3.ForAll([k], z3.Implies(z3.And(0 <= k, k < s.i),
                                                                   z3.And(0 <= a[k], a[k] < rows, a[k] < a[k + 1])))))
    spec = z3.And(z3.ForAll([k], z3.Implies(z3.And(0 <= k, k < n), z3.And(0 <= a[k], a[k] < rows))),
                  z3.ForAll([k], z3.Implies(z3.And(0 <= k, k < n - 1), a[k] < a[k + 1])))
    c.ensures(lambda: (c.result == 0) == spec, "iff_in_range_strictly_increasing")
    c.assigns()


@contract("trees.c", "check_positions", ["positions", "num_positions", "sequence_length"])
def check_positions(c):
    p, n, L = c.arg("positions"), c.arg("num_positions"), c.arg("sequence_length")
    h = c.old
    c.requires(z3.Implies(n > 0, z3.And(z3.Not(h.isnull(p)), p.off == 0, h.len(p) >= n)))
    c.requires(z3.And(d_isfinite(L), d_gt(L, ZERO)))
    a = h.arr(p)
    c.loop(0).invariant(lambda s: z3.And(0 <= s.i, s.i <= n - 1, n > 0, s.ret == 0,
                                         z3.ForAll([k], z3.Implies(z3.And(0 <= k, k < s.i),
                                                                   z3.And(z3.Not(d_lt(a[k], ZERO)), z3.Not(d_ge(a[k], L)),
                                                                          z3.Not(d_ge(a[k], a[k + 1])))))))
    spec = z3.And(z3.ForAll([k], z3.Implies(z3.And(0 <= k, k < n), z3.And(d_ge(a[k], ZERO), d_lt(a[k], L)))),
                  z3.ForAll([k], z3.Implies(z3.And(0 <= k, k < n - 1), d_lt(a[k], a[k + 1]))))
    nonan = z3.ForAll([k], z3.Implies(z3.And(0 <= k, k < n), z3.Not(d_isnan(a[k]))))
    # C09 needs: no accepted position is >= L (positions_to_tree_indexes walks breakpoints while bp <= pos) or
    # < 0; a NaN position stops that walk at once and is harmless, so it is not required to be rejected
    safe = z3.ForAll([k], z3.Implies(z3.And(0 <= k, k < n), z3.And(z3.Not(d_ge(a[k], L)), z3.Not(d_lt(a[k], ZERO)))))
    c.ensures(lambda: z3.Implies(c.result == 0, safe), "accepted_positions_not_out_of_range")
    c.ensures(lambda: z3.Implies(nonan, (c.result == 0) == spec), "iff_in_range_strictly_increasing_when_no_nan")
    c.assigns()


@contract("trees.c", "check_quantiles", ["num_quantiles", "quantiles"])
def check_quantiles(c):
    n, p = c.arg("num_quantiles"), c.arg("quantiles")
    h = c.old
    c.requires(z3.Implies(n > 0, z3.And(z3.Not(h.isnull(p)), p.off == 0, h.len(p) >= n)))
    a = h.arr(p)
    ONE = d_const(1)
    c.loop(0).invariant(lambda s: z3.And(0 <= s.i, s.i <= n, s.ret == 0,
                                         z3.If(s.i == 0, s.last == Dbl.ninf, s.last == a[s.i - 1]),
                                         z3.ForAll([k], z3.Implies(z3.And(0 <= k, k < s.i),
                                                                   z3.And(z3.Not(d_lt(a[k], ZERO)), z3.Not(d_gt(a[k], ONE))))),
                                         z3.ForAll([k], z3.Implies(z3.And(0 < k, k < s.i), z3.Not(d_le(a[k], a[k - 1]))))))
    spec = z3.And(z3.ForAll([k], z3.Implies(z3.And(0 <= k, k < n), z3.And(d_ge(a[k], ZERO), d_le(a[k], ONE)))),
                  z3.ForAll([k], z3.Implies(z3.And(0 < k, k < n), d_lt(a[k - 1], a[k]))))
    nonan = z3.ForAll([k], z3.Implies(z3.And(0 <= k, k < n), z3.Not(d_isnan(a[k]))))
    # NaN quantiles are not a memory-safety matter (they yield NaN outputs); required only on NaN-free input
    c.ensures(lambda: z3.Implies(nonan, (c.result == 0) == spec), "iff_in_unit_interval_strictly_increasing_when_no_nan")
    c.ensures(lambda: z3.Implies(c.result == 0, z3.ForAll([k], z3.Implies(
        z3.And(0 <= k, k < n), z3.And(z3.Not(d_lt(a[k], ZERO)), z3.Not(d_gt(a[k], ONE)))))), "accepted_not_out_of_range")
    c.assigns()


@contract("trees.c", "check_node_bin_map", ["num_nodes", "num_bins", "node_bin_map"])
def check_node_bin_map(c):
    nn, nb, p = c.arg("num_nodes"), c.arg("num_bins"), c.arg("node_bin_map")
    h = c.old
    c.requires(z3.Implies(nn > 0, z3.And(z3.Not(h.isnull(p)), p.off == 0, h.len(p) >= nn)))
    a = h.arr(p)
    c.loop(0).invariant(lambda s: z3.And(0 <= s.i, s.i <= nn, s.ret == 0, s.max_index >= -1,
                                         z3.ForAll([k], z3.Implies(z3.And(0 <= k, k < s.i),
                                                                   z3.And(a[k] >= -1, a[k] <= s.max_index)))))
    c.ensures(lambda: z3.Implies(c.result == 0, z3.And(nb >= 1, z3.ForAll([k], z3.Implies(
        z3.And(0 <= k, k < nn), z3.And(a[k] >= -1, z3.Or(nb > (1 << 31) - 1, a[k] < nb)))))), "accepted_bins_in_range")
    c.assigns()


# ------------------------------------------------------------------------------------------ coalescence rates
@contract("trees.c", "check_coalescence_rate_time_windows",
          ["self", "num_sample_sets", "sample_set_sizes", "sample_sets", "num_time_windows", "node_time_window",
           "time_windows"])
def check_coalescence_rate_time_windows(c):
    """C09: every member of the sample sets is checked against the node table before its time is read, and every
    node's time window index is checked before the window bounds are read"""
    self_, ns, szp, sp = c.arg("self"), c.arg("num_sample_sets"), c.arg("sample_set_sizes"), c.arg("sample_sets")
    ntw, nwp, twp = c.arg("num_time_windows"), c.arg("node_time_window"), c.arg("time_windows")
    h, E = c.old, c.E
    c.requires(z3.Not(h.isnull(self_)))
    t, ok = tables_of(h, self_)
    c.requires(ok)
    T = TC(h, t)
    nn = T.nodes.n
    c.requires(T.nodes.rep())
    # what the extension passes: time_windows has num_time_windows + 1 entries, node_time_window one per node,
    # sample_set_sizes one per set and sample_sets their total
    c.requires(z3.And(ntw >= 0, ntw <= MAX_ROWS, z3.Not(h.isnull(twp)), twp.off == 0, h.len(twp) >= ntw + 1))
    c.requires(z3.Implies(nn > 0, z3.And(z3.Not(h.isnull(nwp)), nwp.off == 0, h.len(nwp) >= nn)))
    c.requires(z3.And(ns >= 0, ns <= MAX_ROWS))
    c.requires(z3.Implies(ns > 0, z3.And(z3.Not(h.isnull(szp)), szp.off == 0, h.len(szp) >= ns)))
    sizes = h.arr(szp)
    c.requires(prefix_sums(sizes, ns))
    c.requires(z3.ForAll([i], z3.Implies(z3.And(0 <= i, i < ns), z3.And(sizes[i] >= 0, sizes[i] <= MAX_ROWS))))
    c.requires(psum(ns) <= MAX_ROWS)
    c.requires(z3.Implies(psum(ns) > 0, z3.And(z3.Not(h.isnull(sp)), sp.off == 0, h.len(sp) >= psum(ns))))
    sets = h.arr(sp) if sp.region is not None else None
    nw = h.arr(nwp) if nwp.region is not None else None
    good = (lambda q: in_ids(sets[q], nn)) if sets is not None else (lambda q: z3.BoolVal(True))
    c.loop(0).invariant(lambda s: z3.And(0 <= s.i, s.i <= ntw, ntw > 0, s.ret == 0))
    c.loop(1).invariant(lambda s: z3.And(0 <= s.i, s.i <= ns, s.k == psum(s.i), ntw > 0, s.ret == 0,
                                         z3.ForAll([j], z3.Implies(z3.And(0 <= j, j < s.k), good(j)))))
    c.loop(2).invariant(lambda s: z3.And(0 <= s.i, s.i < ns, 0 <= s.j, s.j <= sizes[s.i], s.k == psum(s.i) + s.j, ntw > 0, s.ret == 0,
                                         z3.ForAll([j], z3.Implies(z3.And(0 <= j, j < s.k), good(j)))))
    binok = (lambda q: z3.Or(nw[q] < 0, nw[q] < ntw)) if nw is not None else (lambda q: z3.BoolVal(True))
    c.loop(3).invariant(lambda s: z3.And(0 <= s.i, s.i <= nn, ntw > 0, s.ret == 0,
                                         z3.ForAll([j], z3.Implies(z3.And(0 <= j, j < psum(ns)), good(j))),
                                         z3.ForAll([j], z3.Implies(z3.And(0 <= j, j < s.i), binok(j)))))
    c.ensures(lambda: z3.Implies(c.result == 0, z3.And(
        ntw > 0, z3.ForAll([j], z3.Implies(z3.And(0 <= j, j < psum(ns)), good(j))),
        z3.ForAll([j], z3.Implies(z3.And(0 <= j, j < nn), binok(j))))), "accepted_ids_and_bins_in_range")
    c.ensures(lambda: z3.Or(c.result == 0, c.result == E.TSK_ERR_BAD_TIME_WINDOWS_DIM, c.result == E.TSK_ERR_BAD_TIME_WINDOWS,
                            c.result == E.TSK_ERR_NODE_OUT_OF_BOUNDS, c.result == E.TSK_ERR_BAD_SAMPLE_PAIR_TIMES,
                            c.result == E.TSK_ERR_BAD_NODE_BIN_MAP_DIM, c.result == E.TSK_ERR_BAD_NODE_TIME_WINDOW), "codes")
    c.assigns()
