import sys; sys.path.insert(0,'<build of /repo>/python')
import tskit
t = tskit.TableCollection(1.0)
t.nodes.add_row(time=0); t.nodes.add_row(time=1)
t.edges.add_row(0,1,2**31-2,0)
print("calling delete_older"); sys.stdout.flush()
t.delete_older(0.5)
print("returned", t.edges.num_rows)
