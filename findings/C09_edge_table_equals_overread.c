/* tsk_edge_table_equals reads other->metadata_offset for self->num_rows + 1 entries even when the row counts differ */
#include <stdio.h>
#include <tskit/tables.h>
int main(void) {
    tsk_edge_table_t a, b; int j;
    tsk_edge_table_init(&a, 0); tsk_edge_table_init(&b, 0);
    for (j = 0; j < 5000; j++) tsk_edge_table_add_row(&a, 0, 1, 1, 0, NULL, 0);
    tsk_edge_table_add_row(&b, 0, 1, 1, 0, NULL, 0);
    printf("rows %d vs %d, capacity of b: %d rows\n", (int) a.num_rows, (int) b.num_rows, (int) b.max_rows);
    printf("equals -> %d\n", (int) tsk_edge_table_equals(&a, &b, 0));
    tsk_edge_table_free(&a); tsk_edge_table_free(&b);
    return 0;
}
