import sys; sys.path.insert(0,'<build of /repo>/python')
import tskit, msprime
ts = msprime.simulate(4, random_seed=1)
t = ts.first()
for u in [2**32, 2**32+1, 2**31, -1, ts.num_nodes, 2**64]:
    for f in (lambda: t.parent(u), lambda: t.is_descendant(u, 0), lambda: t.is_descendant(0, u), lambda: t.time(u)):
        try:
            print(u, "->", f(), "ACCEPTED")
        except Exception as e:
            print(u, "->", type(e).__name__)
