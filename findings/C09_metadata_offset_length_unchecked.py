import sys; sys.path.insert(0,'<build of /repo>/python')
import numpy as np, tskit
t = tskit.TableCollection(10)
for table, kw in ((t.sites, dict(position=np.array([0., 1., 2.]), ancestral_state=np.array([65, 66, 67], dtype=np.int8),
                                 ancestral_state_offset=np.array([0, 1, 2, 3], dtype=np.uint64))),
                  (t.mutations, dict(site=np.array([0, 0, 0], dtype=np.int32), node=np.array([0, 0, 0], dtype=np.int32),
                                     derived_state=np.array([65, 66, 67], dtype=np.int8),
                                     derived_state_offset=np.array([0, 1, 2, 3], dtype=np.uint64)))):
    for n_off in (2, 3, 5, 4000):
        try:
            table.set_columns(metadata=np.array([], dtype=np.int8), metadata_offset=np.zeros(n_off, dtype=np.uint64), **kw)
            print(type(table).__name__, "metadata_offset of length", n_off, "-> accepted, rows:", table.num_rows)
        except Exception as e:
            print(type(table).__name__, "metadata_offset of length", n_off, "->", type(e).__name__, e)
