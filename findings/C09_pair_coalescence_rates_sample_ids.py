import sys, random  # run with PYTHONPATH=<ASan build of /repo>/python:/verif and the ASan runtime preloaded
sys.path.insert(0,'/verif')
import numpy as np, tskit
from standins import oracle as O
rng = random.Random(0 * 7919 + 17)
while True:
    t = O.random_tables(rng, max_samples=4, max_internal=4, max_breaks=2, individuals=True, populations=True, migrations=True, odd_flags=False)
    if t.edges.num_rows < 2 or t.sites.num_rows < 1 or t.mutations.num_rows < 1: continue
    try: ts=t.tree_sequence()
    except Exception: continue
    break
S = list(ts.samples())
for ids in ([-1], [2**31-1], [ts.num_nodes]):
    print("calling", ids); sys.stdout.flush()
    try:
        print(ts.pair_coalescence_rates(np.array([0, 1, np.inf]), sample_sets=[ids, S]))
    except Exception as e:
        print("raised", type(e).__name__, e)
