/* site/mutation add_row: failure of the SECOND ragged-column expansion leaves the table inconsistent */
#include <stdio.h>
#include <stdlib.h>
#include <tskit/tables.h>
void *__real_realloc(void *p, size_t n);
void *__wrap_realloc(void *p, size_t n) { if (n >= 1000000) return NULL; return __real_realloc(p, n); }
static char big[2000000];
int main(void) {
    tsk_site_table_t t; tsk_mutation_table_t m; tsk_id_t r;
    tsk_site_table_init(&t, 0);
    r = tsk_site_table_add_row(&t, 0.0, "A", 1, NULL, 0);
    printf("add_row -> %d\n", (int) r);
    r = tsk_site_table_add_row(&t, 1.0, "C", 1, big, sizeof(big));
    printf("add_row (metadata expansion fails) -> %d (%s)\n", (int) r, tsk_strerror(r));
    printf("site num_rows=%d ancestral_state_length=%d ancestral_state_offset[num_rows]=%d\n", (int) t.num_rows,
        (int) t.ancestral_state_length, (int) t.ancestral_state_offset[t.num_rows]);
    tsk_mutation_table_init(&m, 0);
    r = tsk_mutation_table_add_row(&m, 0, 0, -1, 0.0, "T", 1, big, sizeof(big));
    printf("mutation add_row -> %d; num_rows=%d derived_state_length=%d derived_state_offset[num_rows]=%d\n", (int) r,
        (int) m.num_rows, (int) m.derived_state_length, (int) m.derived_state_offset[m.num_rows]);
    if (t.ancestral_state_length != t.ancestral_state_offset[t.num_rows]) printf("INCONSISTENT\n");
    r = tsk_site_table_add_row(&t, 2.0, "G", 1, NULL, 0);   /* aborts on tsk_bug_assert */
    printf("next add_row -> %d\n", (int) r);
    return 0;
}
