"""L: the consequences of ghost-function definitions that contracts state as axioms, proved by induction on the
index (base case and step discharged by z3; the induction principle over the naturals is the trusted meta-step).

* offsets: adjacent monotonicity (what check_offsets establishes) implies the transitive form used in Rep_T;
* rank / newoff / psum: bounds and monotonicity follow from the defining recurrences."""
import z3

A = z3.ArraySort(z3.IntSort(), z3.IntSort())
i, k, n = z3.Ints("i k n")


def offsets_transitive():
    off = z3.Const("off", A)
    adj = z3.ForAll([i], z3.Implies(z3.And(0 <= i, i < n), off[i] <= off[i + 1]))
    P = lambda kk: z3.ForAll([i], z3.Implies(z3.And(0 <= i, i <= kk), off[i] <= off[kk]))
    return [("offsets_base", [adj], P(z3.IntVal(0))),
            ("offsets_step", [adj, 0 <= k, k < n, P(k)], P(k + 1))]


def rank_bounds_and_monotone():
    keep = z3.Const("keep", A)
    rank = z3.Function("rank", z3.IntSort(), z3.IntSort())
    defn = z3.And(rank(0) == 0, z3.ForAll([i], z3.Implies(z3.And(0 <= i, i < n), rank(i + 1) == rank(i) + z3.If(keep[i] != 0, 1, 0))))
    B = lambda kk: z3.And(0 <= rank(kk), rank(kk) <= kk)
    M = lambda kk: z3.ForAll([i], z3.Implies(z3.And(0 <= i, i <= kk), rank(i) <= rank(kk)))
    return [("rank_bounds_base", [defn], B(z3.IntVal(0))),
            ("rank_bounds_step", [defn, 0 <= k, k < n, B(k)], B(k + 1)),
            ("rank_monotone_base", [defn], M(z3.IntVal(0))),
            ("rank_monotone_step", [defn, 0 <= k, k < n, M(k)], M(k + 1))]


def newoff_bounds_and_monotone():
    keep = z3.Const("keep", A)
    off = z3.Const("off", A)
    rank = z3.Function("rank", z3.IntSort(), z3.IntSort())
    newoff = z3.Function("newoff", z3.IntSort(), z3.IntSort())
    mono = z3.ForAll([i], z3.Implies(z3.And(0 <= i, i < n), off[i] <= off[i + 1]))
    defn = z3.And(off[0] == 0, mono, rank(0) == 0, newoff(0) == 0,
                  z3.ForAll([i], z3.Implies(z3.And(0 <= i, i < n), z3.And(
                      rank(i + 1) == rank(i) + z3.If(keep[i] != 0, 1, 0),
                      newoff(i + 1) == newoff(i) + z3.If(keep[i] != 0, off[i + 1] - off[i], 0)))),
                  z3.ForAll([i], z3.Implies(z3.And(0 <= i, i <= n), z3.And(0 <= rank(i), rank(i) <= i))))
    B = lambda kk: z3.And(0 <= newoff(kk), newoff(kk) <= off[kk], z3.Implies(rank(kk) == kk, newoff(kk) == off[kk]))
    M = lambda kk: z3.ForAll([i], z3.Implies(z3.And(0 <= i, i <= kk), newoff(i) <= newoff(kk)))
    return [("newoff_bounds_base", [defn], B(z3.IntVal(0))),
            ("newoff_bounds_step", [defn, 0 <= k, k < n, B(k)], B(k + 1)),
            ("newoff_monotone_base", [defn], M(z3.IntVal(0))),
            ("newoff_monotone_step", [defn, 0 <= k, k < n, M(k)], M(k + 1))]


def psum_monotone():
    sizes = z3.Const("sizes", A)
    psum = z3.Function("psum", z3.IntSort(), z3.IntSort())
    defn = z3.And(psum(0) == 0, z3.ForAll([i], z3.Implies(z3.And(0 <= i, i < n), psum(i + 1) == psum(i) + sizes[i])),
                  z3.ForAll([i], z3.Implies(z3.And(0 <= i, i < n), sizes[i] >= 0)))
    M = lambda kk: z3.ForAll([i], z3.Implies(z3.And(0 <= i, i <= kk), psum(i) <= psum(kk)))
    return [("psum_monotone_base", [defn], M(z3.IntVal(0))),
            ("psum_monotone_step", [defn, 0 <= k, k < n, M(k)], M(k + 1))]


def cum_nonnegative():
    """the ghost cumulative length used by tsk_node_table_extend: cum(t) >= 0 follows from the recurrence because the
    offsets of the source table never decrease (row lengths are non-negative)"""
    off = z3.Const("off", A)
    idx = z3.Const("idx", A)
    m = z3.Int("m")
    cum = z3.Function("cum", z3.IntSort(), z3.IntSort())
    mono = z3.ForAll([i], z3.Implies(z3.And(0 <= i, i < m), off[i] <= off[i + 1]))
    inr = lambda r: z3.And(0 <= r, r < m)
    defn = z3.And(cum(0) == 0, mono,
                  z3.ForAll([i], z3.Implies(z3.And(0 <= i, i < n, inr(idx[i])), cum(i + 1) == cum(i) + off[idx[i] + 1] - off[idx[i]])),
                  z3.ForAll([i], z3.Implies(z3.And(0 <= i, i < n), inr(idx[i]))))
    P = lambda kk: cum(kk) >= 0
    return [("cum_nonneg_base", [defn], P(z3.IntVal(0))),
            ("cum_nonneg_step", [defn, 0 <= k, k < n, P(k)], P(k + 1))]
