"""L: the comparator spec functions are strict weak orders on the keys valid tables can hold (no NaN coordinates
or times; a site's mutations have all-known or all-unknown times), so qsort's contract (output sorted by the
comparator) is well defined and a sorted table is a fixed point of sorting."""
import z3
from vf.cvc import Dbl, d_isnan, d_isunknown
from contracts.c.sort_cmp import spec_edge, spec_site, spec_mutation, spec_migration


def _dbl(name):
    return z3.Const(name, Dbl)


def strict_weak_orders():
    out = []
    # ---- edges
    E = [(_dbl("t%d" % k), z3.Int("p%d" % k), z3.Int("c%d" % k), _dbl("l%d" % k)) for k in range(3)]
    nonan = [z3.Not(d_isnan(x)) for e in E for x in (e[0], e[3])]
    s = lambda x, y: spec_edge(*x, *y)
    out.append(("cmp_edge_antisymmetric", nonan, s(E[0], E[1]) == -s(E[1], E[0])))
    out.append(("cmp_edge_transitive", nonan, z3.Implies(z3.And(s(E[0], E[1]) <= 0, s(E[1], E[2]) <= 0), s(E[0], E[2]) <= 0)))
    out.append(("cmp_edge_zero_iff_equal_keys", nonan, (s(E[0], E[1]) == 0) == z3.And(E[0][0] == E[1][0], E[0][1] == E[1][1],
                                                                                         E[0][2] == E[1][2], E[0][3] == E[1][3])))
    # ---- sites
    S = [(_dbl("x%d" % k), z3.Int("i%d" % k)) for k in range(3)]
    nonan = [z3.Not(d_isnan(x[0])) for x in S]
    s = lambda x, y: spec_site(*x, *y)
    out.append(("cmp_site_antisymmetric", nonan, s(S[0], S[1]) == -s(S[1], S[0])))
    out.append(("cmp_site_transitive", nonan, z3.Implies(z3.And(s(S[0], S[1]) <= 0, s(S[1], S[2]) <= 0), s(S[0], S[2]) <= 0)))
    # ---- mutations: known and unknown times are not mixed within a site (C02 mutation integrity)
    M = [(z3.Int("s%d" % k), _dbl("mt%d" % k), z3.Int("m%d" % k)) for k in range(3)]
    ok = [z3.Or(z3.Not(d_isnan(m[1])), d_isunknown(m[1])) for m in M]
    for a in range(3):
        for b in range(a + 1, 3):
            ok.append(z3.Implies(M[a][0] == M[b][0], d_isunknown(M[a][1]) == d_isunknown(M[b][1])))
    s = lambda x, y: spec_mutation(*x, *y)
    out.append(("cmp_mutation_antisymmetric", ok, s(M[0], M[1]) == -s(M[1], M[0])))
    out.append(("cmp_mutation_transitive", ok, z3.Implies(z3.And(s(M[0], M[1]) <= 0, s(M[1], M[2]) <= 0), s(M[0], M[2]) <= 0)))
    # ---- migrations
    G = [(_dbl("gt%d" % k), z3.Int("gs%d" % k), z3.Int("gd%d" % k), _dbl("gl%d" % k), z3.Int("gn%d" % k)) for k in range(3)]
    nonan = [z3.Not(d_isnan(x)) for g in G for x in (g[0], g[3])]
    s = lambda x, y: spec_migration(x, y)
    out.append(("cmp_migration_antisymmetric", nonan, s(G[0], G[1]) == -s(G[1], G[0])))
    out.append(("cmp_migration_transitive", nonan, z3.Implies(z3.And(s(G[0], G[1]) <= 0, s(G[1], G[2]) <= 0), s(G[0], G[2]) <= 0)))
    return out
