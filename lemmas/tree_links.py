"""L (C01): the child lists of the quintuply linked tree stay well formed under the primitive edits.

WF speaks about the abstraction: lp[u] = the node whose child list u is on (-1 when detached; the virtual root for
roots), rk = a ghost rank strictly increasing along right_sib (excludes cycles, so by well-foundedness the list of p
reached from left_child[p] is exactly {u : lp[u] = p}).  The post-state arrays are the contract formulas of
tsk_tree_insert_branch / tsk_tree_remove_branch (contracts/c/trees_edit.py), not the code."""
import z3
from contracts.c.trees_edit import insert_effect, remove_effect

A = z3.ArraySort(z3.IntSort(), z3.IntSort())
u, v = z3.Ints("u v")


def wf(LC, RC, LS, RS, lp, rk, N):
    inr = lambda x: z3.And(0 <= x, x < N)
    return [
        ("rs", z3.ForAll([u], z3.Implies(z3.And(inr(u), RS[u] != -1), z3.And(inr(RS[u]), LS[RS[u]] == u, lp[RS[u]] == lp[u],
                                                                               rk[RS[u]] > rk[u], lp[u] != -1)))),
        ("ls", z3.ForAll([u], z3.Implies(z3.And(inr(u), LS[u] != -1), z3.And(inr(LS[u]), RS[LS[u]] == u, lp[LS[u]] == lp[u],
                                                                               lp[u] != -1)))),
        ("lc", z3.ForAll([u], z3.Implies(z3.And(inr(u), LC[u] != -1), z3.And(inr(LC[u]), lp[LC[u]] == u, LS[LC[u]] == -1)))),
        ("rc", z3.ForAll([u], z3.Implies(z3.And(inr(u), RC[u] != -1), z3.And(inr(RC[u]), lp[RC[u]] == u, RS[RC[u]] == -1)))),
        ("both", z3.ForAll([u], z3.Implies(inr(u), (LC[u] == -1) == (RC[u] == -1)))),
        ("ends", z3.ForAll([u], z3.Implies(z3.And(inr(u), lp[u] != -1),
                                           z3.And(inr(lp[u]), z3.Implies(LS[u] == -1, LC[lp[u]] == u),
                                                  z3.Implies(RS[u] == -1, RC[lp[u]] == u))))),
        ("detached", z3.ForAll([u], z3.Implies(z3.And(inr(u), lp[u] == -1), z3.And(LS[u] == -1, RS[u] == -1)))),
    ]


def edits_preserve_wellformedness():
    LC, RC, LS, RS, NC, P, lp, rk = [z3.Const(n, A) for n in ("LC", "RC", "LS", "RS", "NC", "P", "lp", "rk")]
    N, p, c = z3.Ints("N p c")
    pre = [f for (_n, f) in wf(LC, RC, LS, RS, lp, rk, N)] + [N >= 1, 0 <= p, p < N, 0 <= c, c < N]
    out = []
    # insert: c is detached, ghost lp[c] := p, rk[c] := rk[last child] + 1
    e = insert_effect(LC, RC, LS, RS, NC, P, p, c)
    lp2 = z3.Store(lp, c, p)
    rk2 = z3.Store(rk, c, z3.If(RC[p] == -1, 0, rk[RC[p]] + 1))
    for (nm, f) in wf(e["LC"], e["RC"], e["LS"], e["RS"], lp2, rk2, N):
        out.append(("insert_branch_preserves_" + nm, pre + [lp[c] == -1], f))
    # the child list of p gains exactly c (view statement): lp changes only at c
    # remove: c is on p's list, ghost lp[c] := -1
    e = remove_effect(LC, RC, LS, RS, NC, P, p, c)
    lp3 = z3.Store(lp, c, -1)
    for (nm, f) in wf(e["LC"], e["RC"], e["LS"], e["RS"], lp3, rk, N):
        out.append(("remove_branch_preserves_" + nm, pre + [lp[c] == p], f))
    return out
