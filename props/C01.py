"""C01 - marginal trees are exactly what the node and edge tables say."""
LEVEL = "other"
EXPLANATION = (
    "Proved (all inputs): the tree-position machine that decides which edges leave and enter at every step "
    "(tsk_tree_position_next/prev/seek_forward/seek_backward: canonical in/out ranges = exactly the edges that end / "
    "start at the boundary, no covering edge skipped on a seek), tsk_search_sorted, and check_tree_integrity's "
    "memory safety and index-permutation clause; the four primitive edits of the quintuply linked arrays (exact effect on every cell, whole-array postconditions) and, as lemmas over those contract formulas, preservation of the sibling-list well-formedness (ghost rank along right_sib). The edit functions that apply those ranges to the quintuply linked "
    "arrays (tsk_tree_insert_edge/remove_edge and the sample-count / root maintenance) and every derived view "
    "(children, siblings, roots under the threshold, sample and tracked counts, sample lists, edge array, mrca, "
    "depth, branch lengths, all traversal orders, per-tree sites, edge_diffs, at/at_index/first/last) are compared "
    "with the parent map recomputed from the edge table by the bounded stand-in (seeded small scope), labelled "
    "bounded and not counted as proved."
)
C_FUNCS = [
    ("core.c", "tsk_search_sorted"),
    ("trees.c", "tsk_tree_position_set_null"),
    ("trees.c", "tsk_tree_position_next"),
    ("trees.c", "tsk_tree_position_prev"),
    ("trees.c", "tsk_tree_position_seek_forward"),
    ("trees.c", "tsk_tree_position_seek_backward"),
    ("trees.c", "tsk_tree_check_node"),
    ("trees.c", "tsk_tree_insert_branch"), ("trees.c", "tsk_tree_remove_branch"),
    ("trees.c", "tsk_tree_insert_root"), ("trees.c", "tsk_tree_remove_root"),
    # roots (children of the virtual root), sample status and the walk to a node's root
    ("trees.c", "tsk_tree_is_sample"), ("trees.c", "tsk_tree_get_left_root"), ("trees.c", "tsk_tree_get_right_root"),
    ("trees.c", "tsk_tree_get_num_roots"), ("trees.c", "tsk_tree_get_node_root"), ("trees.c", "tsk_tree_node_root"),
    ("tables.c", "tsk_table_collection_check_tree_integrity"),
]
LEMMAS = ["lemmas.tree_links:edits_preserve_wellformedness"]
BOUNDED = [{"name": "trees_vs_edge_table", "module": "standins.c01_trees", "timeout": 900, "asan": "thorough"}]
UNVERIFIED = ["tsk_tree_insert_edge/remove_edge (sample-count propagation, root maintenance)",
              "tsk_tree_update_sample_lists, tsk_tree_clear, tsk_tree_next/prev (edit loops)",
              "tsk_treeseq_init_trees (breakpoints)", "traversals, mrca, depth (bounded only)",
              "python/tskit/trees.py wrappers and edge_diffs generators (bounded only)"]
ASSUMPTIONS = ["TS.wf (sorted index orders, breakpoints = edge end points) is a precondition of the position machine"]
