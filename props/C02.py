"""C02 - only table collections meeting the data-model requirements become tree sequences."""
LEVEL = "proof"
EXPLANATION = (
    "Each requirement of docs/data-model.md is a row predicate ok_k(j); every row-wise checker of tables.c is "
    "proved, for all tables and all options, to return 0 exactly when every row satisfies its predicate, to "
    "return only documented codes, and to assign nothing (the 'rows left exactly as they were' clause). "
    "Obligations are generated from the clang AST of /repo's current tables.c on every run."
)
C_FUNCS = [
    ("tables.c", "check_offsets"),
    ("tables.c", "tsk_table_collection_check_node_integrity"),
    ("tables.c", "tsk_table_collection_check_edge_integrity"),
    ("tables.c", "tsk_table_collection_check_site_integrity"),
    ("tables.c", "tsk_table_collection_check_mutation_integrity"),
    ("tables.c", "tsk_table_collection_check_migration_integrity"),
    ("tables.c", "tsk_table_collection_check_individual_integrity"),
    ("tables.c", "tsk_table_collection_has_index"),
    ("tables.c", "tsk_table_collection_check_index_integrity"),
    ("tables.c", "tsk_table_collection_check_offsets"),
    ("tables.c", "tsk_table_collection_check_tree_integrity"),
    ("tables.c", "tsk_table_collection_check_integrity"),
]
LEMMAS = ["lemmas.induction:offsets_transitive"]
UNVERIFIED = []
TRUSTED = []
ASSUMPTIONS = [
    "Rep_T (num_rows <= max_rows <= 2^31-1, column regions of max_rows elements, well-formed offsets) of each "
    "table read by a checker is a precondition; it is the postcondition of the table operations under C13",
]
