"""C03 - decoded genotypes follow nearest-mutation inheritance and missing-data rules."""
LEVEL = "other"
EXPLANATION = ("Bounded only in this version: variants(), Variant.decode() in arbitrary site order, genotype_matrix with user "
               "alleles and haplotypes() are compared with nearest-mutation inheritance recomputed from the table columns over "
               "seeded small tree sequences x sample subsets (incl. non-sample nodes) x isolated_as_missing. The kernels of "
               "genotypes.c are not under contract yet; the tree positions the decoder seeks to are proved under C06.")
C_FUNCS = []
BOUNDED = [{"name": "genotypes_vs_tables", "module": "standins.c03_genotypes", "timeout": 900}]
UNVERIFIED = ["tsk_variant_decode, tsk_variant_mark_missing, tsk_variant_update_genotypes_*, tsk_variant_get_allele_index (bounded only)"]
ASSUMPTIONS = []
