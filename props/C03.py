"""C03 - decoded genotypes follow nearest-mutation inheritance and missing-data rules."""
LEVEL = "other"
EXPLANATION = ("Proved: tsk_variant_visit (sets exactly that genotype, reports whether it was missing) and tsk_variant_mark_missing (over the ghost root list of the C01 well-formedness: exactly the roots without children that are in the sample index map become MISSING, every other genotype unchanged) and tsk_variant_update_genotypes_sample_list (the default decoding path: exactly the samples in the stretch of the sample list between left_sample[node] and right_sample[node] take the derived allele, every other genotype is unchanged, every index followed stays inside the sample arrays - over a ghost position function along next_sample). Bounded: variants(), Variant.decode() in arbitrary site order, genotype_matrix with user "
               "alleles and haplotypes() are compared with nearest-mutation inheritance recomputed from the table columns over "
               "seeded small tree sequences x sample subsets (incl. non-sample nodes) x isolated_as_missing. The other kernels of "
               "genotypes.c (decode itself calls through function pointers, which the generator does not follow) are not "
               "under contract; the tree positions the decoder seeks to are proved under C06.")
C_FUNCS = [("genotypes.c", "tsk_variant_visit"), ("genotypes.c", "tsk_variant_mark_missing"),
           ("genotypes.c", "tsk_variant_update_genotypes_sample_list")]
BOUNDED = [{"name": "genotypes_vs_tables", "module": "standins.c03_genotypes", "timeout": 900, "asan": "thorough"}]
UNVERIFIED = ["tsk_variant_decode (indirect calls), tsk_variant_traverse, tsk_variant_get_allele_index, allele expansion (bounded only)"]
ASSUMPTIONS = ["the sample list is well formed (next_sample moves one ghost position on, positions are unique and lie in "
               "[0, num_samples), the stretch of a node is contiguous): maintained by tsk_tree_update_sample_lists, which is not verified"]
