"""C03 - decoded genotypes follow nearest-mutation inheritance and missing-data rules."""
LEVEL = "other"
EXPLANATION = ("Proved: tsk_variant_visit (sets exactly that genotype, reports whether it was missing) and tsk_variant_mark_missing (over the ghost root list of the C01 well-formedness: exactly the roots without children that are in the sample index map become MISSING, every other genotype unchanged). Bounded: variants(), Variant.decode() in arbitrary site order, genotype_matrix with user "
               "alleles and haplotypes() are compared with nearest-mutation inheritance recomputed from the table columns over "
               "seeded small tree sequences x sample subsets (incl. non-sample nodes) x isolated_as_missing. The kernels of "
               "genotypes.c are not under contract yet; the tree positions the decoder seeks to are proved under C06.")
C_FUNCS = [("genotypes.c", "tsk_variant_visit"), ("genotypes.c", "tsk_variant_mark_missing")]
BOUNDED = [{"name": "genotypes_vs_tables", "module": "standins.c03_genotypes", "timeout": 900, "asan": "thorough"}]
UNVERIFIED = ["tsk_variant_decode, tsk_variant_update_genotypes_sample_list, tsk_variant_traverse, tsk_variant_get_allele_index, allele expansion (bounded only)"]
ASSUMPTIONS = []
