"""C04 - simplify preserves the sample genealogy and sample genotypes exactly."""
LEVEL = "other"
EXPLANATION = ("The headline clause is a whole-algorithm equivalence over linked segment lists; no per-function contract within "
               "reach carries it. Proved (all inputs): the two steps that create and withdraw output nodes - "
               "simplifier_record_node appends exactly one output node carrying the input row's time, population, individual "
               "and metadata, its flags unchanged except the sample bit, which is set exactly for the requested samples (unless "
               "NO_UPDATE_SAMPLE_FLAGS), and maps the input id to the new row, leaving every other map entry and output row as "
               "it was; simplifier_rewind_node sets the map entry to NULL and truncates the output to the given length. "
               "Bounded: over seeded small tree sequences x sample lists (any order, non-sample nodes) x option "
               "combinations the node map (range, injectivity, time/metadata, samples[k] -> k), the MRCA of every sample pair at "
               "every position, the retained ancestors on every sample's path (samples, coalescences, unary nodes under "
               "keep_unary[_in_individuals], input roots under keep_input_roots), the alleles of every sample at every site, "
               "validity of the output and idempotence are compared with values recomputed from the table columns.")
C_FUNCS = [("tables.c", "simplifier_record_node"), ("tables.c", "simplifier_rewind_node")]
BOUNDED = [{"name": "simplify_vs_tables", "module": "standins.c04_simplify", "timeout": 900, "asan": "thorough"}]
UNVERIFIED = ["every other simplifier_* function: segment merging, edge recording and flushing, site / population / individual "
              "finalisation, input roots (bounded only)"]
ASSUMPTIONS = ["representation invariants of the input and output node tables (C13) and arrays of one entry per input node "
               "(node_id_map, is_sample) are preconditions; the simplifier's own initialisation is not verified"]
