"""C04 - simplify preserves the sample genealogy and sample genotypes exactly."""
LEVEL = "other"
EXPLANATION = ("The headline clause is a whole-algorithm equivalence over linked segment lists; no per-function contract within "
               "reach carries it. Bounded: over seeded small tree sequences x sample lists (any order, non-sample nodes) x option "
               "combinations the node map (range, injectivity, time/metadata, samples[k] -> k), the MRCA of every sample pair at "
               "every position, the alleles of every sample at every site, validity of the output and idempotence are compared "
               "with values recomputed from the table columns.")
C_FUNCS = []
BOUNDED = [{"name": "simplify_vs_tables", "module": "standins.c04_simplify", "timeout": 900, "asan": "thorough"}]
UNVERIFIED = ["simplifier_* (bounded only)"]
ASSUMPTIONS = []
