"""C05 - storage and interchange are lossless."""
LEVEL = "other"
EXPLANATION = ("Proved: the kastore container read path (descriptor layout inside the file without 64-bit wrap, exactly one "
               "stored object consumed, EOF distinguished from malformed input), see C10. Bounded: dump/load by path and file "
               "object, several objects on one stream until EOFError, asdict/fromdict, pickle, copy and equals() under each "
               "ignore option on seeded collections with every subset of reference-sequence fields, non-ASCII schemas, ragged "
               "columns with empty rows, with and without index.")
C_FUNCS = [("kastore.c", "kastore_read_header"), ("kastore.c", "kastore_read_descriptors"), ("kastore.c", "kastore_read_file"),
           ("kastore.c", "type_size")]
BOUNDED = [{"name": "roundtrips", "module": "standins.c05_roundtrip", "timeout": 900}]
UNVERIFIED = ["kastore write path (pack_items, write_descriptors)", "tables.c column dump/load and *_equals (bounded only)",
              "python dict/pickle paths (bounded only)"]
ASSUMPTIONS = ["see C10"]
