"""C05 - storage and interchange are lossless."""
LEVEL = "other"
EXPLANATION = ("Proved: the judge of every round trip - tsk_<T>_table_equals for all eight tables, "
               "tsk_reference_sequence_equals and tsk_table_collection_equals return true exactly when the two objects "
               "are equal as lists of rows (every fixed column, every ragged column's boundaries and bytes, metadata "
               "schemas, top-level fields), each TSK_CMP_IGNORE_* option removing exactly the columns it names, and "
               "assign nothing. Proved: the kastore container read path (descriptor layout inside the file without 64-bit wrap, exactly one "
               "stored object consumed, EOF distinguished from malformed input), see C10. Bounded: dump/load by path and file "
               "object, several objects on one stream until EOFError, asdict/fromdict, pickle, copy and equals() under each "
               "ignore option on seeded collections with every subset of reference-sequence fields, non-ASCII schemas, ragged "
               "columns with empty rows, with and without index.")
C_FUNCS = [("kastore.c", "kastore_read_header"), ("kastore.c", "kastore_read_descriptors"), ("kastore.c", "kastore_read_file"),
           ("kastore.c", "type_size")] + [("tables.c", "tsk_%s_table_equals" % t) for t in (
               "node", "edge", "site", "mutation", "migration", "individual", "population", "provenance")] + [
           ("tables.c", "tsk_reference_sequence_equals"), ("tables.c", "tsk_table_collection_equals")]
BOUNDED = [{"name": "roundtrips", "module": "standins.c05_roundtrip", "timeout": 900, "asan": "thorough"}]
UNVERIFIED = ["kastore write path (pack_items, write_descriptors)", "tables.c column dump/load (bounded only)", "edge tables created with TSK_TABLE_NO_METADATA in *_equals",
              "python dict/pickle paths (bounded only)"]
ASSUMPTIONS = ["see C10",
               "memcmp over double columns is modelled as equality of the abstract IEEE values: -0.0 / +0.0 and NaN payloads "
               "other than the unknown-time marker are not distinguished",
               "the two arguments of *_equals denote distinct objects (t.equals(t) is not a separate scenario)",
               "location/parents columns of the individual table hold fewer than 2^57 elements"]
