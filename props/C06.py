"""C06 - a Tree's state depends only on where it is, not on how it got there."""
LEVEL = "other"
EXPLANATION = (
    "Proved (all inputs, no bound): the tree-position state machine. For every well-formed tree sequence (index "
    "orders sorted, breakpoints = edge end points) tsk_tree_position_next/prev/seek_forward/seek_backward map a "
    "canonical position (in.stop/out.stop = number of edges with left/right <= bp[k], with the +-1 offsets of the "
    "direction switch derived, not assumed) or the null position to the canonical position of the target tree, "
    "and report exactly the edge ranges that start/end at the boundary; tsk_search_sorted returns the partition "
    "point; tsk_tree_seek/seek_index reject exactly the out-of-range arguments (NaN included); tsk_tree_copy "
    "copies every array and every scalar incl. the position's direction. Canonical position + the C01 tree-edit "
    "contracts give history independence; the tree-edit part (insert/remove edge) is exercised by the bounded "
    "stand-in over navigation histories, labelled bounded."
)
C_FUNCS = [
    ("core.c", "tsk_search_sorted"),
    ("trees.c", "tsk_tree_position_set_null"),
    ("trees.c", "tsk_tree_position_next"),
    ("trees.c", "tsk_tree_position_prev"),
    ("trees.c", "tsk_tree_position_seek_forward"),
    ("trees.c", "tsk_tree_position_seek_backward"),
    ("trees.c", "tsk_treeseq_get_sequence_length"),
    ("trees.c", "tsk_tree_position_in_interval"),
    ("trees.c", "tsk_tree_seek"),
    ("trees.c", "tsk_tree_seek_index"),
    ("trees.c", "tsk_tree_copy"),
]
BOUNDED = [{"name": "navigation_histories", "module": "standins.c01_trees", "timeout": 900, "asan": "thorough"}]
UNVERIFIED = ["tsk_tree_seek_from_null (assumed contract)", "tsk_tree_seek_linear (assumed contract)",
              "tsk_tree_init (assumed contract)", "tsk_tree_next", "tsk_tree_prev", "tsk_tree_first", "tsk_tree_last",
              "tsk_tree_clear", "python Tree.seek/seek_index wrappers"]
ASSUMPTIONS = [
    "TS.wf: index orders sorted by coordinate, breakpoints strictly increasing from 0 to L and equal to the set of "
    "edge end points (established by tsk_treeseq_init after the C02 gate; precondition here)",
    "assumed contracts: tsk_tree_seek_from_null, tsk_tree_seek_linear (require 0 <= x < L; never return "
    "TSK_ERR_SEEK_OUT_OF_BOUNDS), tsk_tree_init (allocates every array with num_nodes+1 elements)",
    "self and dest of tsk_tree_copy are distinct objects",
]
