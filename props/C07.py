"""C07 - sort and repair tools reorder without changing content; the result loads."""
LEVEL = "other"
EXPLANATION = ("Bounded: over seeded small collections with row and id shuffles, sort() permutes rows without changing content "
               "(references resolved to row content), sort + build_index + compute_mutation_parents loads and encodes the same "
               "trees and genotypes, compute_mutation_parents equals the nearest mutation above recomputed from the tables "
               "(including regions where edges only end and tables without edges), partial sorts keep the rows before the "
               "bookmark with their metadata, deduplicate_sites keeps the first of each run and every mutation. Proved: the "
               "integrity gate the result must pass (C02).")
C_FUNCS = [("tables.c", "tsk_table_collection_check_integrity")]
BOUNDED = [{"name": "sort_content", "module": "standins.c07_sort", "timeout": 900}]
UNVERIFIED = ["cmp_* comparators, tsk_table_sorter_sort_*, deduplicate_sites, compute_mutation_parents (bounded only)"]
ASSUMPTIONS = []
