"""C07 - sort and repair tools reorder without changing content; the result loads."""
LEVEL = "other"
EXPLANATION = ("Proved (loop-free, full domain): each sorter comparator returns the sign of the lexicographic comparison of its documented key (cmp_edge: time[parent], parent, child, left; cmp_site: position, id; cmp_mutation: site, older known time first, id; cmp_mutation_canonical; cmp_migration), and lemmas show these spec functions are strict weak orders on the keys valid tables hold. Bounded: over seeded small collections with row and id shuffles, sort() permutes rows without changing content "
               "(references resolved to row content), sort + build_index + compute_mutation_parents loads and encodes the same "
               "trees and genotypes, compute_mutation_parents equals the nearest mutation above recomputed from the tables "
               "(including regions where edges only end and tables without edges), partial sorts keep the rows before the "
               "bookmark with their metadata, deduplicate_sites keeps the first of each run and every mutation. Proved: the "
               "integrity gate the result must pass (C02).")
C_FUNCS = [("tables.c", "tsk_table_collection_check_integrity"), ("tables.c", "cmp_edge"), ("tables.c", "cmp_site"),
           ("tables.c", "cmp_mutation"), ("tables.c", "cmp_mutation_canonical"), ("tables.c", "cmp_migration")]
LEMMAS = ["lemmas.orders:strict_weak_orders"]
BOUNDED = [{"name": "sort_content", "module": "standins.c07_sort", "timeout": 900, "asan": "thorough"}]
UNVERIFIED = ["cmp_* comparators, tsk_table_sorter_sort_*, deduplicate_sites, compute_mutation_parents (bounded only)"]
ASSUMPTIONS = []
