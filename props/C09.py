"""C09 - no API input causes out-of-bounds memory access or aborts the interpreter."""
LEVEL = "other"
EXPLANATION = (
    "Whole-API memory safety decomposes into the BOUNDS/NONNULL/OVERFLOW/DIV0/ASSERT obligations the generator "
    "emits for every array access, arithmetic operation and tsk_bug_assert of a function under its representation "
    "invariant only. Proved here for the argument validators named in the property (identifier rule: accepted "
    "<=> 0 <= id < n, <= n only for the virtual root) and for the validators of windows, sample sets, positions, "
    "quantiles and bin maps; the functions under contract for C02, C06, C13, C10 carry the same obligation kinds "
    "and are listed in their own evidence. The Python-extension layer and the remaining C entry points are "
    "covered only by the bounded stand-in (labelled bounded): every Tree/TreeSequence accessor, seek, statistic and "
    "table algorithm called with boundary identifiers, positions and windows on valid tree sequences, and every "
    "table-collection algorithm called on collections with one corrupted cell (out-of-range ids, NaN/inf "
    "coordinates, bad indexes), each call in a forked child of an AddressSanitizer build of the working tree, so "
    "that a crash, abort, hang or out-of-bounds / use-after-free access inside the C library is observed."
)
C_FUNCS = [
    ("tables.c", "tsk_ibd_finder_init_samples_from_set"),
    ("tables.c", "tsk_ibd_finder_init_between"),
    ("tables.c", "ancestor_mapper_init_samples"),
    ("tables.c", "ancestor_mapper_init_ancestors"),
    ("trees.c", "tsk_tree_check_node"),
    ("trees.c", "tsk_treeseq_check_windows"),
    ("trees.c", "tsk_treeseq_check_sample_sets"),
    ("trees.c", "check_set_indexes"),
    ("trees.c", "check_sites"),
    ("trees.c", "check_positions"),
    ("trees.c", "check_quantiles"),
    ("trees.c", "check_node_bin_map"),
    ("trees.c", "check_coalescence_rate_time_windows"),
    # per-node accessors: the id is checked before any array is indexed; walks up parent[] stay inside the arrays
    ("trees.c", "tsk_tree_get_parent"), ("trees.c", "tsk_tree_get_branch_length_unsafe"), ("trees.c", "tsk_tree_get_branch_length"),
    ("trees.c", "tsk_tree_get_depth_unsafe"), ("trees.c", "tsk_tree_get_depth"), ("trees.c", "tsk_tree_is_descendant"),
    ("trees.c", "tsk_tree_get_mrca"), ("trees.c", "tsk_tree_get_num_tracked_samples"),
    ("trees.c", "tsk_tree_get_time"), ("trees.c", "tsk_tree_get_num_samples"),
    # roots (children of the virtual root), sample status and the walk to a node's root
    ("trees.c", "tsk_tree_is_sample"), ("trees.c", "tsk_tree_get_left_root"), ("trees.c", "tsk_tree_get_right_root"),
    ("trees.c", "tsk_tree_get_num_roots"), ("trees.c", "tsk_tree_get_node_root"), ("trees.c", "tsk_tree_node_root"),
    # row getters of the tree sequence: accepted iff 0 <= index < number of rows
    ("trees.c", "tsk_treeseq_get_node"), ("trees.c", "tsk_treeseq_get_edge"), ("trees.c", "tsk_treeseq_get_migration"),
    ("trees.c", "tsk_treeseq_get_mutation"), ("trees.c", "tsk_treeseq_get_population"), ("trees.c", "tsk_treeseq_get_provenance"),
    ("trees.c", "tsk_tree_has_sample_counts"), ("trees.c", "tsk_treeseq_is_sample"), ("trees.c", "tsk_tree_reset_tracked_samples"),
    ("trees.c", "tsk_tree_set_tracked_samples"),
    ("trees.c", "tsk_treeseq_get_num_nodes"), ("genotypes.c", "variant_init_samples_and_index_map"),
    ("trees.c", "tsk_tree_seek"),
    ("trees.c", "tsk_tree_seek_index"),
    ("tables.c", "tsk_table_collection_check_tree_integrity"),
    ("tables.c", "tsk_table_collection_add_and_remap_node"),
    ("tables.c", "tsk_node_table_get_row"),
    ("tables.c", "tsk_node_table_get_row_unsafe"),
    # every index the table getters and comparisons form stays inside the columns (BOUNDS obligations)
] + [("tables.c", "tsk_%s_table_%s" % (t, f)) for t in ("edge", "site", "mutation", "migration", "individual", "population", "provenance")
     for f in ("get_row", "get_row_unsafe", "equals")] + [("tables.c", "tsk_node_table_equals")]
BOUNDED = [{"name": "adversarial_api_calls", "module": "standins.c09_adversarial", "timeout": 2400, "asan": True}]
UNVERIFIED = ["python/_tskitmodule.c (CPython API; exercised only by the bounded stand-in)", "tsk_treeseq_get_site / _get_individual (arrays of pointers)", "tsk_ibd_finder_add_sample_ancestry (assumed contract)",
              "ancestor_mapper_add_ancestry (assumed contract)", "allocation-failure paths beyond NULL checks"]
LEMMAS = ["lemmas.induction:psum_monotone"]
ASSUMPTIONS = [
    "tree accessors: the parent array holds node ids or NULL (maintained by the edit functions, C01) and the parent "
    "relation is acyclic with depth below num_nodes (ghost depth function; the bound is the pigeonhole fact, an axiom)",
    "monotonicity of psum is stated as an axiom in preconditions and proved from the recurrence by induction in "
    "lemmas/induction.py (induction principle over the naturals trusted)",
    "prefix sums of sample_set_sizes are given by a ghost function psum with psum(num_sets) <= length of the "
    "sample_sets array (the extension passes arrays of exactly that length)",
]
