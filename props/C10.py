"""C10 - truncated or corrupted files are rejected, never loaded as something else."""
LEVEL = "other"
EXPLANATION = (
    "Proved over an abstract byte stream with fread semantics, for all stream lengths and contents: "
    "kastore_read_header rejects every stream shorter than the 64-byte header and distinguishes the empty "
    "stream (KAS_ERR_EOF) from a malformed one; kastore_read_descriptors accepts a descriptor table only if, as "
    "MATHEMATICAL integers (64-bit wrap-around modelled exactly), every key and array lies inside the file, keys "
    "tile [64+64n, first array), arrays are 8-aligned, adjacent and end exactly at file_size, and rejects a "
    "truncated table; kastore_read_file (KAS_READ_ALL) rejects every proper prefix of the stored object and "
    "consumes exactly file_size bytes of it; check_offsets accepts exactly the well-formed offset columns. "
    "The tskit column layer above kastore and byte corruption of data regions are covered by the bounded "
    "stand-in only."
)
C_FUNCS = [
    ("kastore.c", "type_size"), ("kastore.c", "kastore_get_read_io_error"),
    ("kastore.c", "kastore_read_header"), ("kastore.c", "kastore_read_descriptors"),
    ("kastore.c", "kastore_read_file"),
    ("tables.c", "check_offsets"),
]
BOUNDED = [{"name": "prefixes_and_structural_bytes", "module": "standins.c10_corrupt", "timeout": 1800, "asan": True}]
UNVERIFIED = ["kastore_read_item (lazy read path, fseek)", "kastore_read, kastore_openf", "kastore_find_item/compare_items",
              "tables.c read_table_cols, read_table_ragged_cols, tsk_table_collection_read_format_data, load_indexes",
              "tsk_treeseq_loadf (gate = C02)"]
ASSUMPTIONS = [
    "fread model: a short count means end of file; other I/O errors are not modelled",
    "decoding of header/descriptor fields (memcpy of 2/4/8 bytes) is an uninterpreted function of the bytes",
    "file_size <= 2^63 (sizes within 8 bytes of 2^64 are excluded: aligning an offset up could wrap; no such file can be read)",
    "num_items < 2^32 (it is read from a uint32 header field)",
]
