"""C11 - editing operations change only what they document and preserve everything else."""
LEVEL = "other"
EXPLANATION = ("Bounded: ltrim/rtrim/trim, delete_sites, keep_intervals/delete_intervals and delete_older are compared with row-level "
               "oracles (every column other than the shifted coordinates passes through unchanged incl. metadata; half-open "
               "retained regions; parents remapped) on seeded small collections with boundary arguments.")
C_FUNCS = []
BOUNDED = [{"name": "edits_vs_rows", "module": "standins.c11_edits", "timeout": 900, "asan": "thorough"}]
UNVERIFIED = ["tsk_table_collection_delete_older, tsk_treeseq_split_edges, extend_haplotypes", "python/tskit/tables.py editing methods (bounded only)"]
ASSUMPTIONS = []
