"""C13 - tables behave like a list of rows; tree sequences never change."""
LEVEL = "other"
EXPLANATION = (
    "Proved for all inputs: the growth arithmetic (calculate_max_rows/_length with exact 64-bit wrap semantics: "
    "new_max >= num_rows + additional, never beyond 2^31-1 rows / 2^64-1 bytes, overflow codes exactly when "
    "documented), column (re)allocation (expand_column, expand_ragged_column keep the common prefix), and the "
    "node table against its abstract list-of-rows view: add_row appends exactly one row and returns its index or "
    "leaves every row unchanged, truncate(n) keeps the prefix or rejects n > len, clear empties, get_row rejects "
    "exactly the out-of-range indexes; the keep_rows kernels (count_true, keep_mask_to_id_map, subset_*_column, "
    "subset_ragged_char_column) against the ghost rank function: kept rows are compacted in order with their "
    "bytes and boundaries. Every postcondition is over the whole view (all other rows equal) and includes the "
    "representation invariant. add_row of the other seven tables (edge, site, mutation, migration, individual, "
    "population, provenance) is proved against the same list-of-rows view from one contract template over each "
    "table's column list: the new view is the old view plus exactly the given row (fixed columns, ragged offsets "
    "and bytes), or on an error return every row, length and the representation invariant are unchanged; "
    "truncate(n) keeps exactly the first n rows or rejects n > len, clear empties, get_row returns row idx's "
    "fields and slices or rejects exactly the out-of-range indexes, for each of those tables. Node table bulk "
    "operations: append_columns appends exactly the rows described by the column arrays (NULL population / "
    "individual -> -1, NULL metadata -> empty rows) after rejecting missing mandatory columns and ill-formed "
    "offsets, set_columns makes the table exactly those rows, extend appends the selected rows of another table "
    "in order after checking every index (ghost cumulative-length function). keep_rows of the node table and of "
    "the self-referencing mutation and individual tables: the table becomes the sub-list of kept rows (every column, ragged "
    "boundaries and bytes, representation invariant), each parent - pointing backwards or forwards - is replaced by "
    "the new index of the row it names, and a kept row whose parent is out of range or dropped is rejected with "
    "the table left as it was. The "
    "bounds/monotonicity axioms about the ghost functions rank/newoff and the transitive form of offset "
    "monotonicity are proved by induction (base and step discharged) in lemmas/induction.py. The remaining row "
    "operations of those tables, and the Python facade / immutability of TreeSequence, are covered only by the "
    "bounded stand-in."
)
C_FUNCS = [
    ("tables.c", "check_table_overflow"), ("tables.c", "check_offset_overflow"),
    ("tables.c", "calculate_max_rows"), ("tables.c", "calculate_max_length"),
    ("tables.c", "expand_column"), ("tables.c", "expand_ragged_column"),
    ("tables.c", "tsk_node_table_expand_main_columns"), ("tables.c", "tsk_node_table_expand_metadata"),
    ("tables.c", "tsk_node_table_add_row_internal"), ("tables.c", "tsk_node_table_add_row"),
    ("tables.c", "tsk_node_table_truncate"), ("tables.c", "tsk_node_table_clear"),
    ("tables.c", "tsk_node_table_get_row_unsafe"), ("tables.c", "tsk_node_table_get_row"),
    ("tables.c", "count_true"), ("tables.c", "keep_mask_to_id_map"),
    ("tables.c", "subset_id_column"), ("tables.c", "subset_remap_id_column"), ("tables.c", "subset_flags_column"), ("tables.c", "subset_double_column"),
    ("tables.c", "subset_ragged_char_column"),
    ("tables.c", "check_offsets"),
    ("tables.c", "tsk_edge_table_has_metadata"),
    ("tables.c", "tsk_node_table_append_columns"), ("tables.c", "tsk_node_table_set_columns"),
    ("tables.c", "tsk_node_table_extend"),
    ("tables.c", "tsk_edge_table_extend"), ("tables.c", "tsk_population_table_extend"),
    ("tables.c", "tsk_node_table_keep_rows"), ("tables.c", "tsk_mutation_table_keep_rows"),
    ("tables.c", "tsk_individual_table_keep_rows"),
    ("tables.c", "subset_ragged_double_column"), ("tables.c", "subset_remap_ragged_id_column"),
] + [("tables.c", "tsk_%s_table_%s" % (t, f)) for (t, fs) in (
    ("edge", ["expand_main_columns", "expand_metadata", "add_row"]),
    ("site", ["expand_main_columns", "expand_ancestral_state", "expand_metadata", "add_row"]),
    ("mutation", ["expand_main_columns", "expand_derived_state", "expand_metadata", "add_row"]),
    ("migration", ["expand_main_columns", "expand_metadata", "add_row"]),
    ("population", ["expand_main_columns", "expand_metadata", "add_row_internal", "add_row"]),
    ("provenance", ["expand_main_columns", "expand_timestamp", "expand_record", "add_row_internal", "add_row"]),
    ("individual", ["expand_main_columns", "expand_location", "expand_parents", "expand_metadata", "add_row_internal", "add_row"]),
) for f in fs + ["truncate", "clear", "get_row_unsafe", "get_row"]]
LEMMAS = ["lemmas.induction:offsets_transitive", "lemmas.induction:rank_bounds_and_monotone",
          "lemmas.induction:newoff_bounds_and_monotone", "lemmas.induction:cum_nonnegative"]
BOUNDED = [{"name": "list_model", "module": "standins.c13_listmodel", "timeout": 900, "asan": "thorough"}]
UNVERIFIED = [              "edge tables created with TSK_TABLE_NO_METADATA (add_row contract covers the default variant)",
              "tsk_*_table_update_row, _takeset_columns, _copy; _keep_rows of the edge, site, migration, population and provenance tables; _extend of the tables with several ragged columns; _append_columns/_set_columns of the tables other than nodes",
              "python/tskit/tables.py facade", "TreeSequence immutability (numpy flags in _tskitmodule.c)"]
ASSUMPTIONS = [
    "ghost functions rank/newoff: their defining recurrences plus bounds and monotonicity are given as axioms in "
    "the preconditions; the latter are proved from the former by induction in lemmas/induction.py, the induction "
    "principle over the naturals being the trusted meta-step",
    "location/parents rows of the individual table are shorter than 2^57 elements",
    "expand_ragged_column with element size > 1: lengths stay below 2^57 elements (byte size representable)",
    "self->metadata and the metadata argument of add_row may overlap (memmove); other distinct pointers denote "
    "distinct regions",
]
