"""C14 - subset and union retain exactly the referenced data and invert each other."""
LEVEL = "other"
EXPLANATION = ("Bounded: subset against a content oracle (rows identified by unique labels; listed nodes in listed order, edges "
               "with both ends listed, mutations on listed nodes with parents remapped, sites/individuals/populations kept "
               "exactly as referenced or as the options say, dangling individual parents dropped) and split-by-subset / "
               "re-join-by-union with non-identity node mappings (individuals, populations and individual parents of shared "
               "and new nodes) on seeded small collections. Proved: the integrity gate both operations call first (C02).")
C_FUNCS = [("tables.c", "tsk_table_collection_check_integrity"), ("tables.c", "tsk_table_collection_add_and_remap_node")]
BOUNDED = [{"name": "subset_union_content", "module": "standins.c14_subset_union", "timeout": 900, "asan": "thorough"}]
UNVERIFIED = ["tsk_table_collection_subset, _union, _add_and_remap_node, tsk_check_subset_equality (bounded only)"]
ASSUMPTIONS = []
