"""C15 - tree ranks are a bijection and topology counts match brute-force enumeration."""
LEVEL = "other"
EXPLANATION = ("Bounded (exhaustive for n <= 6 leaves in the quick tier, 7 in the thorough tier): all_trees(n) is complete against an "
               "independent enumeration of leaf-labelled topologies, duplicate-free and in rank order; unrank(rank(t)) == t and "
               "rank(unrank(r)) == r; shape and label ranks are contiguous; out-of-range ranks raise ValueError; sampled 8-, 9- "
               "and 12-leaf shapes with three or more equal non-trivial sibling subtrees built with shuffled node ids. No "
               "deductive verifier for Python is installed; the integer kernels are not under a generated-VC contract yet.")
C_FUNCS = []
BOUNDED = [{"name": "rank_bijection", "module": "standins.c15_ranks", "timeout": 1200}]
UNVERIFIED = ["python/tskit/combinatorics.py (bounded only)", "count_topologies (not covered)"]
ASSUMPTIONS = []
