"""C16 - VCF output states exactly the genotypes of the tree sequence."""
LEVEL = "other"
EXPLANATION = ("Bounded: write_vcf records are parsed back and compared with genotypes recomputed from the tables over seeded small "
               "tree sequences x mixed-ploidy individuals in any order x every site_mask representation x array / callable "
               "sample masks x isolated_as_missing x allow_position_zero. Python only; no deductive verifier for Python is "
               "installed.")
C_FUNCS = []
BOUNDED = [{"name": "vcf_vs_tables", "module": "standins.c16_vcf", "timeout": 900}]
UNVERIFIED = ["python/tskit/vcf.py (bounded only)"]
ASSUMPTIONS = []
