"""C17 - text table dumps reload to the same tree sequence."""
LEVEL = "other"
EXPLANATION = ("Bounded: dump_text(precision=9, base64 metadata) -> load_text(strict) row-by-row equality of all seven tables on seeded "
               "small tree sequences with binary metadata, empty and multi-character states, individuals with location and "
               "parents, migrations, and sites alternating known and unknown mutation times.")
C_FUNCS = []
BOUNDED = [{"name": "text_roundtrip", "module": "standins.c17_text", "timeout": 900}]
UNVERIFIED = ["python/tskit/trees.py parse_* / load_text / dump_text (bounded only)", "column order / optional column subsets (not covered)"]
ASSUMPTIONS = []
