"""C18 - Newick, Nexus and FASTA exports encode the trees and sequences faithfully."""
LEVEL = "other"
EXPLANATION = ("Bounded: as_newick for every sampled subtree root x precision x include_branch_lengths x default/custom labels is parsed "
               "by an independent Newick reader and compared (topology, labels: samples n<id> by default, branch lengths = "
               "time differences at the precision) on seeded small trees incl. polytomies, unary and internal-sample nodes, "
               "negative and large times; write_nexus tree names/strings/taxa; write_fasta rows = alignments() and wrapping "
               "for widths 0, 1, L, L/2, 60.")
C_FUNCS = []
BOUNDED = [{"name": "newick_roundtrip", "module": "standins.c18_newick", "timeout": 900}]
UNVERIFIED = ["c/tskit/convert.c tsk_newick_converter_run, python text_formats (bounded only)"]
ASSUMPTIONS = []
