"""C19 - IBD segments are exactly the maximal shared-path intervals of each sample pair."""
LEVEL = "other"
EXPLANATION = ("Proved: pair_to_integer / integer_to_pair (key = min*N + max without int64 overflow, inverse of each other), "
               "tsk_identity_segments_get_key validation, tsk_ibd_finder_passes_filters (passes iff a != b, span > min_span and, "
               "between sets, different sets), the sample-list validators (C09), the default sample set (nodes with the sample bit, whatever other flag bits they carry). Bounded: full ibd_segments against maximal "
               "shared-path intervals recomputed position by position (within / between, min_span incl. exact spans, "
               "max_time incl. node times, aggregates with and without store options).")
C_FUNCS = [("tables.c", "pair_to_integer"), ("tables.c", "integer_to_pair"), ("tables.c", "tsk_identity_segments_get_key"),
           ("tables.c", "tsk_ibd_finder_passes_filters"), ("tables.c", "tsk_ibd_finder_init_samples_from_set"),
           ("tables.c", "tsk_ibd_finder_init_between"), ("tables.c", "tsk_ibd_finder_init_samples_from_nodes")]
BOUNDED = [{"name": "ibd_vs_paths", "module": "standins.c19_ibd", "timeout": 900, "asan": "thorough"}]
UNVERIFIED = ["tsk_ibd_finder_run / find_ibd_segments / add_ancestry, tsk_identity_segments_add_segment, AVL tree (bounded only)"]
ASSUMPTIONS = ["span and min_span are numbers (not NaN) in passes_filters; double subtraction is uninterpreted"]
