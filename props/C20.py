"""C20 - map_mutations returns a most-parsimonious placement that reproduces the data."""
LEVEL = "other"
EXPLANATION = ("Proved (64-bit sets as bit-vectors, complete): set_bit, bit_is_set, get_smallest_set_bit (lowest set bit: that bit set and all lower bits clear). Minimality is Hartigan's theorem, out of reach of per-function SMT obligations. Bounded: for seeded small trees "
               "(multiple roots, unary nodes, internal samples, polytomies) x sampled genotype vectors over <= 3 alleles with "
               "missing data x free / fixed ancestral state (also outside the observed alleles) the result reproduces every "
               "non-missing genotype, lists parents before children with the nearest mutation above as parent, and has exactly "
               "the minimum number of changes computed by an independent Sankoff DP.")
C_FUNCS = [("trees.c", "set_bit"), ("trees.c", "bit_is_set"), ("trees.c", "get_smallest_set_bit")]
BOUNDED = [{"name": "parsimony_vs_dp", "module": "standins.c20_parsimony", "timeout": 900, "asan": "thorough"}]
UNVERIFIED = ["tsk_tree_map_mutations (bounded only)"]
ASSUMPTIONS = []
