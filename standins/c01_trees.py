"""Bounded stand-in for C01 (and the navigation part of C06): every tree accessor against the parent map
recomputed from the edge table, over seeded small valid table collections and navigation histories."""
import itertools

import numpy as np
import tskit

from standins import oracle as O


def expected_state(t, x, root_threshold=1, tracked=()):
    n = t.nodes.num_rows
    pm = O.parent_map_cols(t, x)
    ch = O.children_of(pm, n)
    samples = set(O.samples_of(t))
    ns = {}
    nt = {}
    tracked = set(tracked)

    def count(u):
        s = (1 if u in samples else 0)
        tr = (1 if u in tracked else 0)
        for c in ch[u]:
            a, b = count(c)
            s += a
            tr += b
        ns[u] = s
        nt[u] = tr
        return s, tr
    for u in range(n):
        if u not in pm:
            count(u)
    roots = sorted(u for u in range(n) if u not in pm and ns[u] >= root_threshold)
    return pm, ch, ns, nt, roots


def check_tree(run, t, ts, tree, label, root_threshold=1, tracked=(), sample_lists=False):
    n = t.nodes.num_rows
    left, right = tree.interval
    x = left
    pm, ch, ns, nt, roots = expected_state(t, x, root_threshold, tracked)
    bad = lambda clause, obs, exp: run.violation(clause, {"case": label, "tables": tables_repr(t), "tree_index": tree.index},
                                                 obs, exp)
    par = [pm.get(u, -1) for u in range(n)]
    obs_par = [tree.parent(u) for u in range(n)]
    if obs_par != par:
        bad("parent(u) == covering edge", obs_par, par)
        return False
    arr = tree.parent_array
    if list(arr[:n]) != par or arr[n] != -1:
        bad("parent_array", list(arr), par + [-1])
    for u in range(n):
        if sorted(tree.children(u)) != sorted(ch[u]):
            bad("children(u)", {u: list(tree.children(u))}, {u: ch[u]})
            return False
        if tree.num_children(u) != len(ch[u]):
            bad("num_children", tree.num_children(u), len(ch[u]))
        # sibling links
        cs = list(tree.children(u))
        if cs:
            if tree.left_child(u) != cs[0] or tree.right_child(u) != cs[-1]:
                bad("left/right_child", (tree.left_child(u), tree.right_child(u)), (cs[0], cs[-1]))
            for a, b in zip(cs, cs[1:]):
                if tree.right_sib(a) != b or tree.left_sib(b) != a:
                    bad("sibling links", (tree.right_sib(a), tree.left_sib(b)), (b, a))
            if tree.left_sib(cs[0]) != -1 and tree.parent(cs[0]) != -1 and False:
                pass
        else:
            if tree.left_child(u) != -1 or tree.right_child(u) != -1:
                bad("leaf has no child links", (tree.left_child(u), tree.right_child(u)), (-1, -1))
        if tree.num_samples(u) != ns.get(u, _subtree_samples(u, ch, t)):
            bad("num_samples(u)", {u: tree.num_samples(u)}, {u: ns.get(u)})
        if tracked:
            if tree.num_tracked_samples(u) != nt.get(u, 0):
                bad("num_tracked_samples(u)", {u: tree.num_tracked_samples(u)}, {u: nt.get(u, 0)})
    if sorted(tree.roots) != roots:
        bad("roots under root_threshold", sorted(tree.roots), roots)
    if tree.num_roots != len(roots):
        bad("num_roots", tree.num_roots, len(roots))
    if sorted(tree.children(tree.virtual_root)) != roots:
        bad("children(virtual_root) == roots", sorted(tree.children(tree.virtual_root)), roots)
    if tree.num_edges != len(pm):
        bad("num_edges", tree.num_edges, len(pm))
    # edge array: the edge id covering each child
    E = t.edges
    for u in range(n):
        e = tree.edge(u)
        if u in pm:
            if e < 0 or E.child[e] != u or E.parent[e] != pm[u] or not (E.left[e] <= x < E.right[e]):
                bad("edge(u) covers u", {u: e}, "edge with child u covering x")
        elif e != -1:
            bad("edge(u) == -1 for roots", {u: e}, -1)
    # mrca / depth / is_descendant / branch length
    def anc(u):
        out = [u]
        while u in pm:
            u = pm[u]
            out.append(u)
        return out
    times = t.nodes.time
    for u in range(n):
        d = len(anc(u)) - 1
        if tree.depth(u) != d:
            bad("depth(u)", {u: tree.depth(u)}, d)
        bl = (times[pm[u]] - times[u]) if u in pm else 0
        if tree.branch_length(u) != bl:
            bad("branch_length(u)", tree.branch_length(u), bl)
    for u, v in itertools.combinations(range(n), 2):
        au, av = anc(u), anc(v)
        m = next((w for w in au if w in av), -1)
        if tree.mrca(u, v) != m:
            bad("mrca(u,v)", {(u, v): tree.mrca(u, v)}, m)
        if tree.is_descendant(u, v) != (v in au):
            bad("is_descendant", tree.is_descendant(u, v), v in au)
    tbl = sum((times[pm[u]] - times[u]) for r in roots for u in O.descendants(ch, r) if u in pm)
    if abs(tree.total_branch_length - tbl) > 1e-9:
        bad("total_branch_length", tree.total_branch_length, tbl)
    # traversal orders
    reach = sorted(w for r in roots for w in O.descendants(ch, r))
    for order in ("preorder", "postorder", "inorder", "levelorder", "breadthfirst", "timeasc", "timedesc",
                  "minlex_postorder"):
        seq = list(tree.nodes(order=order))
        if sorted(seq) != reach:
            bad("nodes(order=%s) visits the reachable nodes once" % order, seq, reach)
            continue
        posn = {w: k for k, w in enumerate(seq)}
        if order == "preorder" and any(posn[pm[w]] > posn[w] for w in seq if w in pm):
            bad("preorder: parent before child", seq, "parents first")
        if order in ("postorder", "minlex_postorder") and any(posn[pm[w]] < posn[w] for w in seq if w in pm):
            bad("%s: child before parent" % order, seq, "children first")
        if order == "timeasc" and [times[w] for w in seq] != sorted(times[w] for w in seq):
            bad("timeasc sorted by time", seq, "sorted")
        if order == "timedesc" and [times[w] for w in seq] != sorted((times[w] for w in seq), reverse=True):
            bad("timedesc sorted by time", seq, "sorted")
    pre = list(tree.preorder())
    if sorted(pre) != reach:
        bad("preorder() array", pre, reach)
    post = list(tree.postorder())
    if sorted(post) != reach:
        bad("postorder() array", post, reach)
    # samples / leaves under each node
    samples = set(O.samples_of(t))
    for u in range(n):
        exp = sorted(w for w in O.descendants(ch, u) if w in samples)
        if sorted(tree.samples(u)) != exp:
            bad("samples(u)", sorted(tree.samples(u)), exp)
        expl = sorted(w for w in O.descendants(ch, u) if not ch[w])
        if sorted(tree.leaves(u)) != expl:
            bad("leaves(u)", sorted(tree.leaves(u)), expl)
    if sample_lists:
        # left_sample / right_sample / next_sample chains enumerate exactly the samples below each node
        sample_ids = list(ts.samples())
        for u in range(n):
            exp = sorted(w for w in O.descendants(ch, u) if w in samples)
            chain = []
            idx = tree.left_sample(u)
            if idx != -1:
                stop = tree.right_sample(u)
                guard = 0
                while True:
                    chain.append(sample_ids[idx])
                    if idx == stop or guard > len(sample_ids):
                        break
                    idx = tree.next_sample(idx)
                    guard += 1
            if sorted(chain) != exp:
                bad("sample list chain of u = samples below u", {u: chain}, {u: exp})
                return False
    # sites and mutations of the tree
    exp_sites = [s for s in range(t.sites.num_rows) if left <= t.sites.position[s] < right]
    if [s.id for s in tree.sites()] != exp_sites:
        bad("sites in the tree interval", [s.id for s in tree.sites()], exp_sites)
    return True


def _subtree_samples(u, ch, t):
    samples = set(O.samples_of(t))
    return sum(1 for w in O.descendants(ch, u) if w in samples)


def tables_repr(t):
    return {"L": t.sequence_length, "nodes": [(int(f), float(x)) for f, x in zip(t.nodes.flags, t.nodes.time)],
            "edges": [(float(l), float(r), int(p), int(c)) for l, r, p, c in
                      zip(t.edges.left, t.edges.right, t.edges.parent, t.edges.child)],
            "sites": [float(p) for p in t.sites.position]}


def check_ts(run, t, label):
    ts = t.tree_sequence()
    bps = O.breakpoints(t)
    if list(ts.breakpoints()) != bps:
        run.violation("tree intervals partition [0,L) at the distinct edge end points",
                      {"case": label, "tables": tables_repr(t)}, list(ts.breakpoints()), bps)
        return
    if ts.num_trees != len(bps) - 1:
        run.violation("num_trees", {"case": label, "tables": tables_repr(t)}, ts.num_trees, len(bps) - 1)
    k = 0
    for tree in ts.trees():
        if tuple(tree.interval) != (bps[k], bps[k + 1]) or tree.index != k:
            run.violation("tree interval", {"case": label, "tables": tables_repr(t)}, tuple(tree.interval), (bps[k], bps[k + 1]))
        check_tree(run, t, ts, tree, label)
        k += 1
    samples = O.samples_of(t)
    # options: sample lists, root threshold, tracked samples
    if samples:
        tr = run.rng.sample(samples, run.rng.randint(0, len(samples)))
        th = run.rng.choice([1, 2])
        for tree in ts.trees(tracked_samples=tr, root_threshold=th, sample_lists=True):
            check_tree(run, t, ts, tree, label + "/opts", root_threshold=th, tracked=tr, sample_lists=True)
    # at / at_index / first / last
    for k in range(len(bps) - 1):
        mid = (bps[k] + bps[k + 1]) / 2
        for tree, how in ((ts.at(bps[k]), "at(left)"), (ts.at(mid), "at(mid)"), (ts.at_index(k), "at_index"),
                          (ts.at_index(k - (len(bps) - 1)), "at_index(negative)")):
            if tree.index != k:
                run.violation("%s lands on the tree covering x" % how, {"case": label, "tables": tables_repr(t), "k": k},
                              tree.index, k)
            else:
                check_tree(run, t, ts, tree, label + "/" + how)
    if ts.first().index != 0 or ts.last().index != len(bps) - 2:
        run.violation("first/last", {"case": label}, (ts.first().index, ts.last().index), (0, len(bps) - 2))
    check_tree(run, t, ts, ts.last(), label + "/last")
    # edge diffs
    cur = {}
    E = t.edges
    for (iv, out_e, in_e) in ts.edge_diffs():
        for e in out_e:
            cur.pop(e.child, None)
        for e in in_e:
            cur[e.child] = e.parent
        exp = O.parent_map_cols(t, iv[0])
        if cur != exp:
            run.violation("edge_diffs reproduce the parent map", {"case": label, "tables": tables_repr(t)}, cur, exp)
            break
    # reverse edge diffs
    cur = {}
    for (iv, out_e, in_e) in ts.edge_diffs(direction=tskit.REVERSE):
        for e in out_e:
            cur.pop(e.child, None)
        for e in in_e:
            cur[e.child] = e.parent
        exp = O.parent_map_cols(t, iv[0])
        if cur != exp:
            run.violation("reverse edge_diffs reproduce the parent map", {"case": label, "tables": tables_repr(t)}, cur, exp)
            break
    # navigation histories (C06): the state after any history equals the state at that index
    # systematic two-step histories from the null state: seek(x) then next / prev, for 3 points of every tree
    for kq in range(len(bps) - 1):
        for xx in (bps[kq], (bps[kq] + bps[kq + 1]) / 2, max(bps[kq], np.nextafter(bps[kq + 1], -np.inf))):
            for step in ("next", "prev"):
                tree = tskit.Tree(ts)
                tree.seek(xx)
                getattr(tree, step)()
                run.case()
                if tree.index != -1:
                    if not check_tree(run, t, ts, tree, label + "/history seek(%r) %s" % (xx, step)):
                        return
    ops = ["first", "last", "next", "prev", "seek", "seek_index", "clear", "copy"]
    for _ in range(run.budget(6, 30)):
        if samples and run.rng.random() < 0.5:
            h_tr = run.rng.sample(samples, run.rng.randint(0, len(samples)))
            h_th = run.rng.choice([1, 2])
            tree = tskit.Tree(ts, tracked_samples=h_tr, sample_lists=True, root_threshold=h_th)
        else:
            h_tr, h_th = (), 1
            tree = tskit.Tree(ts)
        hist = ["Tree(tracked=%s, root_threshold=%d)" % (list(h_tr), h_th)]
        for _step in range(run.rng.randint(1, 7)):
            op = run.rng.choice(ops)
            if op == "seek":
                kq = run.rng.randrange(len(bps) - 1)
                xx = run.rng.choice([bps[kq], (bps[kq] + bps[kq + 1]) / 2,
                                     max(bps[kq], np.nextafter(bps[kq + 1], -np.inf))])
                tree.seek(xx)
                hist.append("seek(%r)" % xx)
            elif op == "seek_index":
                kk = run.rng.randrange(-(len(bps) - 1), len(bps) - 1)
                tree.seek_index(kk)
                hist.append("seek_index(%d)" % kk)
            elif op == "copy":
                tree = tree.copy()
                hist.append("copy")
            else:
                getattr(tree, op)()
                hist.append(op)
            run.case()
            if tree.index == -1:
                nsites_null = len(list(tree.sites()))
                if tree.num_edges != 0 or tuple(tree.interval) != (0, 0) or nsites_null != 0 or tree.num_sites != 0:
                    run.violation("null tree is empty (no edges, no sites, interval (0,0))",
                                  {"case": label, "history": hist, "tables": tables_repr(t)},
                                  (tree.num_edges, tuple(tree.interval), tree.num_sites, nsites_null), (0, (0, 0), 0, 0))
                continue
            kx = tree.index
            if tuple(tree.interval) != (bps[kx], bps[kx + 1]):
                run.violation("interval after history", {"case": label, "history": hist, "tables": tables_repr(t)},
                              tuple(tree.interval), (bps[kx], bps[kx + 1]))
                break
            if not check_tree(run, t, ts, tree, label + "/history " + " ".join(hist), root_threshold=h_th, tracked=h_tr,
                              sample_lists=bool(h_tr) or h_th != 1):
                break


def rng_breaks(run):
    return run.rng.randint(8, 30)


def main():
    run = O.Run("c01_trees")
    if run.replay is not None:
        # re-run the stored case: the generator is deterministic in (seed, case number)
        pass
    N = run.budget(800, 6000)
    run.scope = ("%d seeded valid table collections (<=4 samples, <=4 internal nodes, <=3 breakpoints, every fifth with <=2 samples "
                 "and 8-30 breakpoints; gaps, unary, polytomies, internal samples) x tree options x navigation histories of length <= 7" % N)
    for k in range(N):
        if k % 5 == 4:
            # many small trees over few edges: long seeks in either direction cross more trees than there are edges
            t = O.random_tables(run.rng, sites=True, integer_coords=True, odd_flags=False, max_samples=2, max_internal=3,
                                max_breaks=rng_breaks(run), L=40.0)
        else:
            t = O.random_tables(run.rng, sites=True, integer_coords=(k % 3 != 0), odd_flags=(k % 2 == 0))
        label = "seed=%d case=%d" % (run.seed, k)
        run.case(("ts", k))
        try:
            check_ts(run, t, label)
        except Exception as e:
            run.violation("no exception on a valid table collection", {"case": label, "tables": tables_repr(t)},
                          "%s: %s" % (type(e).__name__, e), "no exception")
        if run.violations:
            break
    run.sample(tables_repr(t))
    run.finish()


if __name__ == "__main__":
    O.run_main(main)
