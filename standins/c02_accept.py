"""Bounded stand-in for C02: tree_sequence() succeeds iff the independent validity predicate holds, over small
valid collections and their single-field departures (boundary values, NaN/inf, ids n-1/n/n+1, user indexes);
a rejected collection raises a library error and its rows are unchanged."""
import itertools
import math

import numpy as np
import tskit

from standins import oracle as O

BAD_FLOATS = [float("nan"), float("inf"), float("-inf"), -1.0, 0.0]


def snapshot(t):
    return t.copy()


def try_load(t):
    try:
        t.tree_sequence()
        return True, None
    except tskit.LibraryError as e:
        return False, str(e)
    except Exception as e:          # any other exception type is reported
        return False, "%s: %s" % (type(e).__name__, e)


def idx(t):
    if not t.has_index():
        return None
    return (t.indexes.edge_insertion_order, t.indexes.edge_removal_order)


def compare(run, t, what):
    before = snapshot(t)
    ix = idx(t)
    if ix is None:
        # TableCollection.tree_sequence() builds the index of an unindexed collection first
        t3 = t.copy()
        try:
            t3.build_index()
            ix = idx(t3)
        except Exception:
            ix = None
    exp, why = O.valid_tables(t, ix)
    got, msg = try_load(t)
    run.case()
    desc = {"departure": what, "tables": O.brief(before)}
    if got != exp:
        run.violation("tree_sequence() succeeds iff the data-model requirements hold", desc,
                      "accepted" if got else "rejected: %s" % msg, "valid" if exp else "invalid: %s" % why)
    if not got and msg is not None and not msg.endswith(")") and "TSK_ERR" not in msg:
        run.violation("rejection is a library error", desc, msg, "LibraryError")
    if not O.same_tables(before, t) and not got:
        run.violation("rejected collection left exactly as it was", desc, "tables changed", "unchanged")


def departures(run, base):
    """single-field departures of a valid indexed collection"""
    nn, ne, ns, nm = base.nodes.num_rows, base.edges.num_rows, base.sites.num_rows, base.mutations.num_rows
    ids = lambda n: [-2, -1, 0, max(n - 1, 0), n, n + 1, 2**31 - 1]
    L = base.sequence_length
    coords = BAD_FLOATS + [L, L + 1, np.nextafter(L, 0), L / 2]

    def edit(table_name, col, row, value):
        t = base.copy()
        tab = getattr(t, table_name)
        a = getattr(tab, col).copy()
        try:
            a[row] = value
        except (OverflowError, ValueError):
            return None
        kw = {c: getattr(tab, c) for c in tab.column_names if not c.endswith("_schema")}
        kw[col] = a
        try:
            tab.set_columns(**kw)
        except Exception:
            return None
        return t
    for e in range(ne):
        for col, vals in (("left", coords), ("right", coords)):
            for v in vals:
                yield "edges.%s[%d]=%r" % (col, e, v), edit("edges", col, e, v), True
        for col in ("parent", "child"):
            for v in ids(nn):
                yield "edges.%s[%d]=%r" % (col, e, v), edit("edges", col, e, v), True
    for u in range(nn):
        for v in BAD_FLOATS + [1e300]:
            yield "nodes.time[%d]=%r" % (u, v), edit("nodes", "time", u, v), True
        for v in ids(base.populations.num_rows):
            yield "nodes.population[%d]=%r" % (u, v), edit("nodes", "population", u, v), True
        for v in ids(base.individuals.num_rows):
            yield "nodes.individual[%d]=%r" % (u, v), edit("nodes", "individual", u, v), True
    for s in range(ns):
        for v in coords:
            yield "sites.position[%d]=%r" % (s, v), edit("sites", "position", s, v), True
    for m in range(nm):
        for col, n in (("site", ns), ("node", nn), ("parent", nm)):
            for v in ids(n):
                yield "mutations.%s[%d]=%r" % (col, m, v), edit("mutations", col, m, v), True
        for v in BAD_FLOATS + [0.25, 1e300]:
            yield "mutations.time[%d]=%r" % (m, v), edit("mutations", "time", m, v), True
    for v in BAD_FLOATS + [L / 2]:
        t = base.copy()
        t.sequence_length = v
        yield "sequence_length=%r" % v, t, False
    # row swaps (ordering requirements)
    for name in ("edges", "sites", "mutations"):
        n = getattr(base, name).num_rows
        for a in range(n - 1):
            t = base.copy()
            tab = getattr(t, name)
            r0, r1 = tab[a], tab[a + 1]
            tab[a] = r1
            tab[a + 1] = r0
            yield "%s rows %d,%d swapped" % (name, a, a + 1), t, True


def main():
    run = O.Run("c02_accept")
    N = run.budget(25, 200)
    run.scope = ("%d seeded small valid collections x every single-field departure (coordinates in {nan,inf,-inf,-1,0,"
                 "L,L+1,L-ulp}, ids in {-2,-1,0,n-1,n,n+1,2^31-1}, adjacent row swaps) x rebuilt/stale index; all index "
                 "arrays over [0,n)^n for n <= 3 edges" % N)
    for k in range(N):
        base = O.random_tables(run.rng, max_samples=3, max_internal=3, max_breaks=2, sites=True)
        base.build_index()
        compare(run, base.copy(), "none (valid base)")
        for what, t, reindex in departures(run, base):
            if t is None:
                continue
            # stale index (as left by the edit) and rebuilt index
            compare(run, t.copy(), what + " [index kept]")
            if reindex:
                t2 = t.copy()
                try:
                    t2.build_index()
                except Exception:
                    continue
                compare(run, t2, what + " [index rebuilt]")
            if run.violations:
                break
        t = base.copy()
        t.drop_index()
        compare(run, t, "index dropped")
        # exhaustive user-supplied indexes for few edges
        ne = base.edges.num_rows
        if 1 <= ne <= 3:
            for ins in itertools.product(range(ne), repeat=ne):
                for rem in itertools.product(range(ne), repeat=ne):
                    t = base.copy()
                    t.indexes = tskit.TableCollectionIndexes(np.array(ins, dtype=np.int32), np.array(rem, dtype=np.int32))
                    compare(run, t, "indexes I=%s O=%s" % (list(ins), list(rem)))
        if run.violations:
            break
    run.sample(O.brief(base))
    run.finish()


if __name__ == "__main__":
    O.run_main(main)
