"""Bounded stand-in for C03: decoded genotypes vs nearest-mutation inheritance recomputed from the tables."""
import numpy as np
import tskit

from standins import oracle as O


def expected_alleles(t, site_id, samples, iam):
    return O.site_genotypes(t, site_id, samples, isolated_as_missing=iam)


def check(run, t, label):
    ts = t.tree_sequence()
    all_samples = O.samples_of(t)
    if ts.num_sites == 0 or not all_samples:
        return
    subsets = [None]
    if len(all_samples) > 1:
        subsets.append(run.rng.sample(all_samples, run.rng.randint(1, len(all_samples))))
    nonsample = [u for u in range(t.nodes.num_rows) if u not in all_samples]
    if nonsample:
        subsets.append(run.rng.sample(all_samples + nonsample, run.rng.randint(1, min(4, len(all_samples + nonsample)))))
    for samples in subsets:
        for iam in (True, False):
            ss = all_samples if samples is None else samples
            if iam and any(u not in all_samples for u in ss):
                continue     # documented: non-sample nodes require isolated_as_missing=False
            desc = {"case": label, "samples": samples, "isolated_as_missing": iam, "tables": O.brief(t)}
            run.case()
            got = []
            for v in ts.variants(samples=samples, isolated_as_missing=iam):
                exp = expected_alleles(t, v.site.id, ss, iam)
                obs = [v.alleles[g] if g != -1 else None for g in v.genotypes]
                got.append(obs)
                if obs != exp:
                    run.violation("variants(): allele of each sample = nearest mutation above, else ancestral; isolated = missing",
                                  dict(desc, site=v.site.id), obs, exp)
                    return
                if v.has_missing_data != (None in exp):
                    run.violation("has_missing_data", dict(desc, site=v.site.id), v.has_missing_data, None in exp)
                if v.alleles[0] != t.sites[v.site.id].ancestral_state:
                    run.violation("allele 0 is the ancestral state", dict(desc, site=v.site.id), v.alleles, t.sites[v.site.id].ancestral_state)
                if (None in v.alleles) != (None in exp) or (None in v.alleles and v.alleles[-1] is not None):
                    run.violation("None allele listed last iff missing data", dict(desc, site=v.site.id), v.alleles, exp)
            # decode in arbitrary site order
            var = tskit.Variant(ts, samples=samples, isolated_as_missing=iam)
            order = list(range(ts.num_sites))
            run.rng.shuffle(order)
            for sid in order + order[:1]:
                var.decode(sid)
                exp = expected_alleles(t, sid, ss, iam)
                obs = [var.alleles[g] if g != -1 else None for g in var.genotypes]
                if obs != exp:
                    run.violation("Variant.decode(site) in arbitrary order", dict(desc, site=sid, order=order), obs, exp)
                    return
            # genotype matrix (all-single-letter alleles only) with user alleles
            if samples is None or all(u in all_samples for u in ss):
                letters = all(len(m.derived_state) == 1 for m in t.mutations) and all(len(s.ancestral_state) == 1 for s in t.sites)
                if letters:
                    alle = ("A", "C", "G", "T")
                    G = ts.genotype_matrix(samples=samples, isolated_as_missing=iam, alleles=alle)
                    for sid in range(ts.num_sites):
                        exp = expected_alleles(t, sid, ss, iam)
                        obs = [alle[g] if g != -1 else None for g in G[sid]]
                        if obs != exp:
                            run.violation("genotype_matrix with user alleles", dict(desc, site=sid), obs, exp)
                            return
                    if samples is None or True:
                        try:
                            H = list(ts.haplotypes(samples=samples, isolated_as_missing=iam, missing_data_character="N"))
                        except Exception as e:
                            H = None
                        if H is not None:
                            for k, s_ in enumerate(ss):
                                exp = "".join((expected_alleles(t, sid, [s_], iam)[0] or "N") for sid in range(ts.num_sites))
                                if H[k] != exp:
                                    run.violation("haplotypes()", dict(desc, sample=s_), H[k], exp)
                                    return


def main():
    run = O.Run("c03_genotypes")
    N = run.budget(400, 4000)
    run.scope = ("%d seeded small valid tree sequences with <=3 sites and stacked/back mutations x sample subsets (incl. "
                 "non-sample nodes) x isolated_as_missing x decode order x user alleles" % N)
    for k in range(N):
        t = O.random_tables(run.rng, sites=True, max_breaks=2)
        if t.sites.num_rows == 0:
            continue
        # single-letter or empty states are both exercised by the generator
        try:
            check(run, t, "seed=%d case=%d" % (run.seed, k))
        except Exception as e:
            run.violation("no exception on a valid tree sequence", {"case": k, "tables": O.brief(t)},
                          "%s: %s" % (type(e).__name__, e), "no exception")
        if run.violations:
            break
    run.sample(O.brief(t))
    run.finish()


if __name__ == "__main__":
    O.run_main(main)
