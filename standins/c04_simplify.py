"""Bounded stand-in for C04: simplify vs the sample genealogy / genotypes recomputed from the tables."""
import itertools

import numpy as np
import tskit

from standins import oracle as O


def mrca(pm, a, b):
    anc = [a]
    while a in pm:
        a = pm[a]
        anc.append(a)
    while True:
        if b in anc:
            return b
        if b not in pm:
            return -1
        b = pm[b]


def check(run, t, label):
    ts = t.tree_sequence()
    n = t.nodes.num_rows
    all_samples = O.samples_of(t)
    cands = list(range(n))
    k = run.rng.randint(1, min(4, n))
    samples = run.rng.sample(cands, k) if run.rng.random() < 0.5 or not all_samples else \
        run.rng.sample(all_samples, run.rng.randint(1, len(all_samples)))
    opts = dict(filter_sites=run.rng.random() < 0.7, filter_populations=run.rng.random() < 0.5,
                filter_individuals=run.rng.random() < 0.5, filter_nodes=run.rng.random() < 0.8,
                keep_unary=run.rng.random() < 0.3, keep_input_roots=run.rng.random() < 0.3,
                reduce_to_site_topology=run.rng.random() < 0.3)
    if (opts["keep_unary"] and run.rng.random() < 0.3) or run.rng.random() < 0.15:
        opts["keep_unary"] = False
        opts["keep_unary_in_individuals"] = True
    desc = {"case": label, "samples": samples, "options": opts, "tables": O.brief(t)}
    run.case()
    out = t.copy()
    node_map = out.simplify(samples, **opts)
    sts = out.tree_sequence()
    m = out.nodes.num_rows
    # node map sanity
    if len(node_map) != n:
        run.violation("node map has one entry per input node", desc, len(node_map), n)
        return
    used = {}
    for u, v in enumerate(node_map):
        if v == -1:
            continue
        if not (0 <= v < m):
            run.violation("node map entries are output node ids", desc, {u: int(v)}, "in [0,%d)" % m)
            return
        if v in used:
            run.violation("node map is injective on retained nodes", desc, {used[v]: int(v), u: int(v)}, "distinct")
            return
        used[v] = u
        want_flags = (int(t.nodes.flags[u]) & ~1) | (1 if u in samples else 0) if opts.get("update_sample_flags", True) else int(t.nodes.flags[u])
        if int(out.nodes.flags[v]) != want_flags:
            run.violation("a mapped node keeps its flags except the sample bit, which is set exactly for the requested samples",
                          desc, {u: hex(int(out.nodes.flags[v]))}, hex(want_flags))
            return
        if out.nodes.time[v] != t.nodes.time[u] or out.nodes[v].metadata != t.nodes[u].metadata:
            run.violation("a mapped node keeps its time and metadata", desc, (u, int(v), out.nodes.time[v]), t.nodes.time[u])
            return
    if opts["filter_nodes"]:
        for k_, s in enumerate(samples):
            if node_map[s] != k_:
                run.violation("samples[k] maps to node k", desc, {s: int(node_map[s])}, k_)
                return
    else:
        if not all(node_map[u] == u for u in range(n)):
            run.violation("filter_nodes=False keeps node ids", desc, list(map(int, node_map)), list(range(n)))
    ssamples = [int(node_map[s]) for s in samples]
    if sorted(u for u, f in enumerate(out.nodes.flags) if int(f) & 1) != sorted(ssamples):
        run.violation("the output samples are exactly the requested nodes", desc, O.samples_of(out), sorted(ssamples))
    # genealogy: MRCA of every pair of samples at every position (not under reduce_to_site_topology)
    pts = sorted(set(O.breakpoints(t)[:-1] + O.breakpoints(out)[:-1]))
    if not opts["reduce_to_site_topology"]:
        for x in pts:
            pm0 = O.parent_map_cols(t, x)
            pm1 = O.parent_map_cols(out, x)
            for a, b in itertools.combinations(samples, 2):
                m0 = mrca(pm0, a, b)
                m1 = mrca(pm1, int(node_map[a]), int(node_map[b]))
                exp = -1 if m0 == -1 else int(node_map[m0])
                if m1 != exp:
                    run.violation("MRCA of every sample pair preserved position by position", dict(desc, x=x, pair=(a, b)), m1, exp)
                    return
    # which ancestors are retained: position by position, the path from every chosen sample to its root in the output
    # is the input path restricted to the nodes the options require (documented semantics of keep_unary,
    # keep_unary_in_individuals and keep_input_roots; without them only samples and coalescences remain)
    if not opts["reduce_to_site_topology"]:
        chosen = set(samples)
        ind = t.nodes.individual
        for x in pts:
            pm0 = O.parent_map_cols(t, x)
            pm1 = O.parent_map_cols(out, x)
            ch0 = O.children_of(pm0, n)
            below = {}

            def carries(u):
                """does the subtree of u (at x, in the input) contain a chosen sample?"""
                if u not in below:
                    below[u] = (u in chosen) or any(carries(c) for c in ch0.get(u, []))
                return below[u]
            for s_ in samples:
                path = [s_]
                while path[-1] in pm0:
                    path.append(pm0[path[-1]])
                exp_path = [s_]
                for u in path[1:]:
                    lineages = sum(1 for c in ch0.get(u, []) if carries(c))
                    keep = (u in chosen) or lineages >= 2 or opts["keep_unary"] or \
                        (opts.get("keep_unary_in_individuals") and ind[u] != -1) or \
                        (opts["keep_input_roots"] and u == path[-1])
                    if keep:
                        exp_path.append(u)
                got_path = [int(node_map[s_])]
                while got_path[-1] in pm1:
                    got_path.append(pm1[got_path[-1]])
                want = [int(node_map[u]) for u in exp_path]
                if got_path != want:
                    run.violation("the retained ancestors of every sample are exactly those the options require (samples, "
                                  "coalescences, unary nodes under keep_unary[_in_individuals], input roots under keep_input_roots)",
                                  dict(desc, x=x, sample=s_, input_path=path), got_path, want)
                    return
    # genotypes of the chosen samples at every input site
    pos_out = {float(p): i for i, p in enumerate(out.sites.position)}
    for sid in range(t.sites.num_rows):
        exp = O.site_genotypes(t, sid, samples, isolated_as_missing=False)
        p = float(t.sites.position[sid])
        if p in pos_out:
            got = O.site_genotypes(out, pos_out[p], ssamples, isolated_as_missing=False)
            lib = None
            for v in sts.variants(samples=ssamples, isolated_as_missing=False):
                if v.site.position == p:
                    lib = [v.alleles[g] for g in v.genotypes]
            if got != exp or (lib is not None and lib != exp):
                run.violation("sample alleles at every site preserved", dict(desc, site=sid), {"tables": got, "variants": lib}, exp)
                return
        else:
            if not opts["filter_sites"]:
                run.violation("filter_sites=False keeps every site", dict(desc, site=sid), "site removed", "kept")
            if any(a != t.sites[sid].ancestral_state for a in exp):
                run.violation("a removed site carried no variation among the samples", dict(desc, site=sid), exp, "all ancestral")
                return
    # idempotence
    again = out.copy()
    nm2 = again.simplify(ssamples, **opts)
    again.provenances.clear()
    o2 = out.copy()
    o2.provenances.clear()
    if opts["filter_nodes"] and not O.same_tables(again, o2):
        if opts["reduce_to_site_topology"]:
            # recorded finding (known_findings.json): under reduce_to_site_topology a second pass can reduce further
            # (sites without mutations shape the first result and are then filtered out; input roots are recorded
            # although their edges are dropped); kept as its own clause so that exploration continues
            run.violation("simplify is idempotent [reduce_to_site_topology]", desc, O.brief(again), O.brief(o2))
        else:
            run.violation("simplify is idempotent", desc, O.brief(again), O.brief(o2))


def main():
    run = O.Run("c04_simplify")
    N = run.budget(1500, 15000)
    run.scope = "%d seeded small valid tree sequences x random sample lists (incl. non-sample nodes) x option combinations" % N
    for k in range(N):
        t = O.random_tables(run.rng, sites=True, individuals=(k % 2 == 0), populations=(k % 3 == 0), max_breaks=3)
        t.edges.drop_metadata()       # documented: simplify refuses edges with metadata
        if k % 2 == 0 and t.nodes.num_rows:
            fl = t.nodes.flags.copy()
            for u in range(len(fl)):
                if run.rng.random() < 0.4:
                    fl[u] |= run.rng.choice([1 << 17, 1 << 18, 1 << 20, 1 << 31])
            t.nodes.flags = fl
        try:
            check(run, t, "seed=%d case=%d" % (run.seed, k))
        except tskit.LibraryError as e:
            if "TSK_ERR_KEEP_UNARY_MUTUALLY_EXCLUSIVE" in str(e) or "DUPLICATE_SAMPLE" in str(e):
                continue
            run.violation("no library error on valid input", {"case": k, "tables": O.brief(t)}, str(e), "no exception")
        if any("[reduce_to_site_topology]" not in v["clause"] for v in run.violations):
            break
    run.sample(O.brief(t))
    run.finish()


if __name__ == "__main__":
    O.run_main(main)
