"""Bounded stand-in for C05: dump/load (path, file object, several objects on one stream), asdict/fromdict,
pickle and copy are lossless; equals() agrees with column-wise equality under each ignore_* option."""
import io
import os
import pickle
import tempfile

import numpy as np
import tskit

from standins import oracle as O


def decorate(run, t, k):
    rng = run.rng
    r_ = rng.random()
    if r_ < 0.4:
        t.metadata_schema = tskit.MetadataSchema({"codec": "json"})
        t.metadata = {"k": k, "s": "é参"}
    elif r_ < 0.6:
        t.metadata = b"\x00raw top-level \xff metadata"        # no schema
    elif r_ < 0.7:
        t.metadata_schema = tskit.MetadataSchema({"codec": "json"})    # schema, empty metadata
    if rng.random() < 0.5:
        t.time_units = rng.choice(["generations", "years", "µs", "", "unknown"])
    for name in ("nodes", "edges", "sites", "mutations", "individuals", "populations", "migrations"):
        if rng.random() < 0.3:
            getattr(t, name).metadata_schema = tskit.MetadataSchema({"codec": "struct", "type": "object", "properties": {}}) \
                if False else tskit.MetadataSchema(None)
    if rng.random() < 0.6:
        # every subset of the four reference-sequence fields
        rs = t.reference_sequence
        if rng.random() < 0.5:
            rs.data = "ACGT" * rng.randint(0, 3)
        if rng.random() < 0.5:
            rs.url = "http://example.com/é"
        r_ = rng.random()
        if r_ < 0.4:
            rs.metadata_schema = tskit.MetadataSchema({"codec": "json", "title": "réf"})
            if rng.random() < 0.5:
                rs.metadata = {"a": 1}
        elif r_ < 0.7:
            # raw metadata bytes without a schema (the null codec passes bytes through)
            rs.metadata = b"\x00\x01raw \xff\xfe bytes\x00"
    if rng.random() < 0.5:
        t.provenances.add_row(record='{"x": %d}' % k, timestamp="2020-01-01T00:00:%02d" % (k % 60))
    for m in range(t.mutations.num_rows):
        pass
    if t.mutations.num_rows and rng.random() < 0.3:
        # known times on one whole site
        pass
    if rng.random() < 0.5:
        t.build_index()
    else:
        t.drop_index()


def same(a, b):
    if not O.same_tables(a, b):
        return "table columns differ"
    if a.has_index() != b.has_index():
        return "index presence differs"
    if a.has_index() and (list(a.indexes.edge_insertion_order) != list(b.indexes.edge_insertion_order)
                          or list(a.indexes.edge_removal_order) != list(b.indexes.edge_removal_order)):
        return "index contents differ"
    for attr in ("metadata_bytes", "time_units"):
        if getattr(a, attr) != getattr(b, attr):
            return attr + " differs"
    if repr(a.metadata_schema) != repr(b.metadata_schema):
        return "metadata_schema differs"
    ra, rb = a.reference_sequence, b.reference_sequence
    if a.has_reference_sequence() != b.has_reference_sequence():
        return "has_reference_sequence differs: %s vs %s" % (a.has_reference_sequence(), b.has_reference_sequence())
    if (ra.data, ra.url, ra.metadata_bytes, repr(ra.metadata_schema)) != (rb.data, rb.url, rb.metadata_bytes, repr(rb.metadata_schema)):
        return "reference sequence differs"
    for name in ("nodes", "edges", "sites", "mutations", "individuals", "populations", "migrations"):
        if repr(getattr(a, name).metadata_schema) != repr(getattr(b, name).metadata_schema):
            return name + " metadata schema differs"
    return None


def main():
    run = O.Run("c05_roundtrip")
    N = run.budget(150, 1500)
    run.scope = ("%d seeded small collections (ragged columns with empty rows, unknown times, non-ASCII schemas/units, every "
                 "subset of reference-sequence fields, with/without index) x {dump/load path, file object, 2 objects on one "
                 "stream + EOF, asdict/fromdict, pickle, copy} + equals() under ignore options" % N)
    d = tempfile.mkdtemp(prefix="vf_c05_")
    try:
        prev = None
        for k in range(N):
            t = O.random_tables(run.rng, sites=True, individuals=(k % 2 == 0), populations=True, migrations=(k % 3 == 0))
            decorate(run, t, k)
            desc = {"case": "seed=%d case=%d" % (run.seed, k), "tables": O.brief(t),
                    "refseq": [t.reference_sequence.data, t.reference_sequence.url, repr(t.reference_sequence.metadata_schema),
                               t.reference_sequence.metadata_bytes.decode("latin-1")]}
            run.case()
            p = os.path.join(d, "x.trees")
            t.dump(p)
            for what, back in (("dump(path)/load", lambda: tskit.TableCollection.load(p)),
                               ("dump(fileobj)/load", None), ("asdict/fromdict", lambda: tskit.TableCollection.fromdict(t.asdict())),
                               ("pickle", lambda: pickle.loads(pickle.dumps(t))), ("copy", lambda: t.copy())):
                if back is None:
                    p2 = os.path.join(d, "y.trees")
                    with open(p2, "wb") as f:
                        t.dump(f)
                    with open(p2, "rb") as f:
                        got = tskit.TableCollection.load(f)
                else:
                    got = back()
                why = same(t, got)
                if why:
                    run.violation("%s is lossless" % what, desc, why, "identical")
                if not t.equals(got) and why is None and not any(np.isnan(getattr(t, n_).time).any() and False for n_ in ()):
                    # equals() uses value comparison; NaN-free columns must compare equal
                    nan = any(np.isnan(x).any() for x in (t.nodes.time, t.sites.position))
                    if not nan:
                        run.violation("equals() of a lossless copy", desc, False, True)
            # two objects back to back on one stream, then EOF
            if prev is not None:
                with open(os.path.join(d, "two.trees"), "wb") as f:
                    prev.dump(f)
                    t.dump(f)
                with open(os.path.join(d, "two.trees"), "rb") as f:
                    a = tskit.TableCollection.load(f)
                    b = tskit.TableCollection.load(f)
                    for x, y, nm in ((prev, a, "first"), (t, b, "second")):
                        why = same(x, y)
                        if why:
                            run.violation("multi-object stream: %s object is lossless" % nm, desc, why, "identical")
                    try:
                        tskit.TableCollection.load(f)
                        run.violation("EOFError at the end of a multi-object stream", desc, "loaded a third object", "EOFError")
                    except EOFError:
                        pass
                    except Exception as e:
                        run.violation("EOFError at the end of a multi-object stream", desc, "%s: %s" % (type(e).__name__, e), "EOFError")
            # tree sequence round trip when indexed & valid
            try:
                ts = t.tree_sequence()
                ts.dump(p)
                ts2 = tskit.load(p)
                why = same(ts.dump_tables(), ts2.dump_tables())
                if why:
                    run.violation("TreeSequence dump/load is lossless", desc, why, "identical")
            except tskit.LibraryError:
                pass
            # equals() options: change exactly one ignored thing
            u = t.copy()
            u.provenances.add_row(record="{}", timestamp="x")
            if t.equals(u) or not t.equals(u, ignore_provenance=True):
                run.violation("equals(ignore_provenance)", desc, (t.equals(u), t.equals(u, ignore_provenance=True)), (False, True))
            u = t.copy()
            u.metadata_schema = tskit.MetadataSchema({"codec": "json", "title": "other"})
            if t.equals(u) or not t.equals(u, ignore_ts_metadata=True):
                run.violation("equals(ignore_ts_metadata)", desc, (t.equals(u), t.equals(u, ignore_ts_metadata=True)), (False, True))
            if t.nodes.num_rows:
                u = t.copy()
                u.nodes[0] = u.nodes[0].replace(metadata=b"CHANGED")
                if t.equals(u) or not t.equals(u, ignore_metadata=True):
                    run.violation("equals(ignore_metadata)", desc, (t.equals(u), t.equals(u, ignore_metadata=True)), (False, True))
                u = t.copy()
                u.nodes[0] = u.nodes[0].replace(time=u.nodes[0].time + 1)
                if t.equals(u, ignore_metadata=True, ignore_provenance=True, ignore_ts_metadata=True, ignore_timestamps=True,
                            ignore_tables=False, ignore_reference_sequence=True):
                    run.violation("equals() sees a changed column under every ignore option", desc, True, False)
            u = t.copy()
            u.reference_sequence.data = "TTTT"
            if t.reference_sequence.data != "TTTT" and (t.equals(u) or not t.equals(u, ignore_reference_sequence=True)):
                run.violation("equals(ignore_reference_sequence)", desc, (t.equals(u), t.equals(u, ignore_reference_sequence=True)), (False, True))
            prev = t
            if run.violations:
                break
    finally:
        import shutil
        shutil.rmtree(d, ignore_errors=True)
    run.sample(O.brief(t))
    run.finish()


if __name__ == "__main__":
    O.run_main(main)
