"""Bounded stand-in for C07: sort / canonicalise / deduplicate_sites / compute_mutation_parents / build_index
reorder without changing content, and the result loads and encodes the same trees and genotypes."""
import itertools

import numpy as np
import tskit

from standins import oracle as O


def multiset(t):
    """content of a collection up to row order: rows with references resolved to row content"""
    nodes = [(int(f), float(x), int(p), int(i), bytes(m)) for f, x, p, i, m in
             zip(t.nodes.flags, t.nodes.time, t.nodes.population, t.nodes.individual, [r.metadata for r in t.nodes])]
    edges = sorted((float(e.left), float(e.right), nodes[e.parent], nodes[e.child], e.metadata) for e in t.edges)
    sites = {k: (float(s.position), s.ancestral_state, s.metadata) for k, s in enumerate(t.sites)}
    muts = sorted((sites[m.site], nodes[m.node], m.derived_state, m.metadata, repr(m.time)) for m in t.mutations)
    return sorted(nodes), edges, sorted(sites.values()), muts


def shuffled(run, t):
    """row-permuted copy with references remapped (mutations keep parent-before-child? no: parents recomputed)"""
    rng = run.rng
    u = t.copy()
    n = t.nodes.num_rows
    perm = list(range(n))
    rng.shuffle(perm)          # new id of old node k is perm[k]
    inv = [0] * n
    for old, new in enumerate(perm):
        inv[new] = old
    u.nodes.clear()
    for new in range(n):
        u.nodes.append(t.nodes[inv[new]])
    u.edges.clear()
    es = list(t.edges)
    rng.shuffle(es)
    for e in es:
        u.edges.append(e.replace(parent=perm[e.parent], child=perm[e.child]))
    u.sites.clear()
    u.mutations.clear()
    ss = list(enumerate(t.sites))
    rng.shuffle(ss)
    smap = {}
    for k, s in ss:
        smap[k] = u.sites.append(s)
    ms = list(t.mutations)
    # keep the relative order of mutations within a site (parent before child), shuffle across sites
    by_site = {}
    for m in ms:
        by_site.setdefault(m.site, []).append(m)
    keys = list(by_site)
    rng.shuffle(keys)
    for k in keys:
        for m in by_site[k]:
            u.mutations.append(m.replace(site=smap[m.site], node=perm[m.node], parent=-1))
    return u, perm


def mutation_parents_oracle(t):
    """nearest mutation above at the same site, from the tables (requires sorted sites/mutations)"""
    out = []
    for j, m in enumerate(t.mutations):
        pm = O.parent_map_cols(t, t.sites.position[m.site])
        last_on = {}
        for k in range(j):
            mk = t.mutations[k]
            if mk.site == m.site:
                last_on[mk.node] = k
        v = m.node
        par = -1
        first = True
        while v != -1:
            if v in last_on and (not first or True):
                par = last_on[v]
                break
            first = False
            v = pm.get(v, -1)
        out.append(par)
    return out


def main():
    run = O.Run("c07_sort")
    N = run.budget(300, 3000)
    run.scope = ("%d seeded small valid collections: row/id shuffles -> sort, canonicalise, build_index, "
                 "compute_mutation_parents, deduplicate_sites; partial sort (edge_start) with edge metadata; "
                 "trailing regions where edges only end" % N)
    for k in range(N):
        t = O.random_tables(run.rng, sites=True, max_breaks=3)
        desc = {"case": "seed=%d case=%d" % (run.seed, k), "tables": O.brief(t)}
        run.case()
        try:
            ts0 = t.tree_sequence()
        except Exception as e:
            run.violation("generator produces valid tables", desc, str(e), "valid")
            break
        # (1) compute_mutation_parents on the valid sorted tables == oracle == stored parents
        exp = mutation_parents_oracle(t)
        u = t.copy()
        u.mutations.parent = np.full(u.mutations.num_rows, -1, dtype=np.int32)
        u.build_index()
        u.compute_mutation_parents()
        if list(u.mutations.parent) != exp:
            run.violation("compute_mutation_parents assigns the nearest mutation above at the site", desc,
                          list(map(int, u.mutations.parent)), exp)
            break
        # (2) shuffle, sort: same content, loads, same trees/genotypes
        s, perm = shuffled(run, t)
        before = multiset(s)
        s.sort()
        if multiset(s) != before:
            run.violation("sort() permutes rows without changing content", desc, "content changed", "same multiset of rows")
            break
        s.build_index()
        s.compute_mutation_parents()
        try:
            ts1 = s.tree_sequence()
        except Exception as e:
            run.violation("sort + build_index + compute_mutation_parents loads", desc, str(e), "loads")
            break
        for x in O.breakpoints(t)[:-1]:
            a = {perm[c]: perm[p] for c, p in O.parent_map_cols(t, x).items()}
            if a != O.parent_map_cols(s, x):
                run.violation("sorted tables encode the same trees", dict(desc, x=x), O.parent_map_cols(s, x), a)
                break
        samples = O.samples_of(t)
        pos_s = {float(p): i for i, p in enumerate(s.sites.position)}
        for sid in range(t.sites.num_rows):
            g0 = O.site_genotypes(t, sid, samples, isolated_as_missing=False)
            g1 = O.site_genotypes(s, pos_s[float(t.sites.position[sid])], [perm[x] for x in samples], isolated_as_missing=False)
            if g0 != g1:
                run.violation("sorted tables encode the same genotypes", dict(desc, site=sid), g1, g0)
        # idempotence of sort
        s2 = s.copy()
        s2.sort()
        if not O.same_tables(s, s2):
            run.violation("sort() of sorted tables changes nothing", desc, "changed", "unchanged")
        # (3) canonicalise of two row-permuted copies gives equal tables
        a, _ = shuffled(run, t)
        b, _ = shuffled(run, t)
        for z in (a, b):
            z.sort()
            z.build_index()
            z.compute_mutation_parents()
        # node ids differ between the two shuffles: canonicalise only promises equality for same node ids, so
        # permute rows other than nodes
        c1, c2 = t.copy(), t.copy()
        for z in (c1, c2):
            es = list(z.edges)
            run.rng.shuffle(es)
            z.edges.clear()
            for e in es:
                z.edges.append(e)
            z.canonicalise()
        if not O.same_tables(c1, c2):
            run.violation("canonicalise() of row-permuted copies gives equal tables", desc, "differ", "equal")
        # (4) partial sort keeps rows before edge_start, incl. metadata
        if t.edges.num_rows >= 2:
            st = run.rng.randrange(1, t.edges.num_rows)
            v = t.copy()
            rows_before = [(e.left, e.right, e.parent, e.child, e.metadata) for e in v.edges]
            tail = list(v.edges)[st:]
            run.rng.shuffle(tail)
            head = list(v.edges)[:st]
            v.edges.clear()
            for e in head + tail:
                v.edges.append(e)
            want_tail = sorted(((float(t.nodes.time[e.parent]), e.parent, e.child, e.left), e) for e in tail)
            try:
                v.sort(edge_start=st)
                got = [(e.left, e.right, e.parent, e.child, e.metadata) for e in v.edges]
                exp_rows = [(e.left, e.right, e.parent, e.child, e.metadata) for e in head] + \
                           [(e.left, e.right, e.parent, e.child, e.metadata) for _, e in want_tail]
                if got != exp_rows:
                    run.violation("sort(edge_start=k) keeps rows < k (with metadata) and sorts the rest", dict(desc, edge_start=st),
                                  got, exp_rows)
            except tskit.LibraryError:
                pass
            except Exception as e:
                run.violation("sort(edge_start=k) keeps rows < k (with metadata) and sorts the rest", dict(desc, edge_start=st),
                              "%s: %s" % (type(e).__name__, e), "rows readable")
        # (5) deduplicate_sites: duplicate a random position (often preceded by sites without mutations)
        if t.sites.num_rows:
            w = t.copy()
            if run.rng.random() < 0.6:
                keep_from = run.rng.randrange(w.sites.num_rows)
                w.mutations.clear()
                for m in t.mutations:
                    if m.site >= keep_from:
                        w.mutations.append(m.replace(parent=-1))
            jd = run.rng.randrange(w.sites.num_rows)
            dup = w.sites[jd]
            sid = w.sites.append(dup.replace(metadata=b"dup"))
            w.mutations.add_row(site=sid, node=0, derived_state="Z", metadata=b"on-dup")
            w.sort()
            before = sorted((float(w.sites[m.site].position), int(m.node), m.derived_state, m.metadata) for m in w.mutations)
            npos = sorted(set(float(p_) for p_ in w.sites.position))
            try:
                w.deduplicate_sites()
                after = sorted((float(w.sites[m.site].position), int(m.node), m.derived_state, m.metadata) for m in w.mutations)
            except Exception as e:
                after = "%s: %s" % (type(e).__name__, e)
            if after != before:
                run.violation("deduplicate_sites keeps every mutation at its position with its content", dict(desc, duplicated=jd), after, before)
            elif sorted(float(p_) for p_ in w.sites.position) != npos:
                run.violation("deduplicate_sites keeps one site per position", desc, list(w.sites.position), npos)
            else:
                first = [s_ for s_ in w.sites if s_.position == dup.position][0]
                if first.metadata != dup.metadata or first.ancestral_state != dup.ancestral_state:
                    run.violation("deduplicate_sites keeps the first of each run", desc, first, dup)
        if run.violations:
            break
    run.sample(O.brief(t))
    run.finish()


if __name__ == "__main__":
    O.run_main(main)
