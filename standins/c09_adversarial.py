"""Bounded stand-in for C09: adversarial API calls never crash, abort or hang the interpreter.

Every call runs in a forked child of this process; the verdict of a case is how the child ended:
returned or raised a Python exception (fine), killed by a signal (SIGSEGV / SIGABRT: a violation), or still running
after the time limit (a hang: a violation).  After a call that raised, the same objects are used again in the same
child (a later call must be safe too).  Separately, identifiers of 2^31 or more, below -1 and above the virtual root
must be REJECTED by the Tree accessors (they must raise), not answered for some other node.

What this cannot see: out-of-bounds reads that do not fault (the contracts' BOUNDS obligations cover the C side)."""
import io
import math
import os
import signal
import sys

import numpy as np
import tskit

from standins import oracle as O

NAN, INF = float("nan"), float("inf")


STATS = {"returned": 0, "raised": 0, "harness_error": 0, "other": 0}


def forked(fn, timeout=20):
    """-> None when the child returned or raised; else a description of how it died"""
    sys.stdout.flush()
    pid = os.fork()
    if pid == 0:
        try:
            devnull = os.open(os.devnull, os.O_WRONLY)
            os.dup2(devnull, 2)
            signal.alarm(timeout)
            code = 0
            try:
                fn()
            except (AttributeError, NameError, ImportError) as e:
                code = 9             # most likely an error of this harness, not of the library: counted separately
                if os.environ.get("C09_DEBUG"):
                    os.write(1, ("HARNESS? %s: %s\n" % (getattr(fn, "_nm", "?"), e)).encode())
            except BaseException:
                code = 7
        finally:
            os._exit(code)
    _, status = os.waitpid(pid, 0)
    if os.WIFEXITED(status):
        STATS[{0: "returned", 7: "raised", 9: "harness_error"}.get(os.WEXITSTATUS(status), "other")] += 1
    if os.WIFSIGNALED(status):
        sig = os.WTERMSIG(status)
        if sig == signal.SIGALRM:
            return "no result after %d s (hang)" % timeout
        return "child killed by signal %d (%s)" % (sig, signal.Signals(sig).name)
    return None


# ------------------------------------------------------------------------------------------ valid tree sequences
def bad_ids(n):
    return [-2, -1, 0, max(n - 1, 0), n, n + 1, 2**31 - 1, 2**31, 2**32, 2**32 + 1, 2**63, 2**64]


TREE_ONE = ["parent", "left_child", "right_child", "left_sib", "right_sib", "children", "time", "branch_length", "depth",
            "population", "is_sample", "is_leaf", "is_internal", "is_isolated", "num_samples", "num_tracked_samples",
            "num_children", "samples", "leaves", "total_branch_length", "edge"]
TREE_TWO = ["mrca", "is_descendant", "tmrca", "path_length"]


def consume(x):
    if hasattr(x, "__iter__") and not isinstance(x, (str, bytes, np.ndarray)):
        for k, _ in enumerate(x):
            if k > 10000:
                break
    return x


def tree_cases(ts, desc):
    n = ts.num_nodes
    out = []
    for idx in (0, ts.num_trees - 1):
        for m in TREE_ONE:
            for u in bad_ids(n):
                def f(m=m, u=u, idx=idx):
                    t = ts.at_index(idx)
                    a = getattr(t, m)
                    consume(a(u) if callable(a) else a)
                    consume(t.nodes(root=u)) if m == "parent" else None
                out.append(("Tree.%s(%r) on tree %d" % (m, u, idx), f))
        for m in TREE_TWO:
            for u in bad_ids(n):
                for v in (0, u):
                    out.append(("Tree.%s(%r, %r) on tree %d" % (m, u, v, idx),
                                lambda m=m, u=u, v=v, idx=idx: (getattr(ts.at_index(idx), m)(u, v), getattr(ts.at_index(idx), m)(v, u))))
    L = ts.sequence_length
    for x in (-1.0, 0.0, L / 2, math.nextafter(L, 0), L, L + 1, NAN, INF, -INF, 1e300):
        out.append(("Tree.seek(%r) from first, then parent(0)" % x, lambda x=x: (lambda t: (t.first(), t.seek(x), t.parent(0), t.next(), t.prev()))(tskit.Tree(ts))))
        out.append(("Tree.seek(%r) from null" % x, lambda x=x: (lambda t: (t.seek(x), t.parent(0), t.prev()))(tskit.Tree(ts))))
        out.append(("ts.at(%r)" % x, lambda x=x: ts.at(x).parent(0)))
    for k in (-2, -1, 0, ts.num_trees - 1, ts.num_trees, ts.num_trees + 1, 2**31 - 1, 2**31, 2**32, 2**64):
        out.append(("Tree.seek_index(%r)" % k, lambda k=k: (lambda t: (t.seek_index(k), t.parent(0), t.next()))(tskit.Tree(ts))))
        out.append(("ts.at_index(%r)" % k, lambda k=k: ts.at_index(k).parent(0)))
    for name, cnt in (("node", n), ("edge", ts.num_edges), ("site", ts.num_sites), ("mutation", ts.num_mutations),
                      ("individual", ts.num_individuals), ("population", ts.num_populations),
                      ("migration", ts.num_migrations), ("provenance", ts.num_provenances)):
        for k in bad_ids(cnt):
            out.append(("ts.%s(%r)" % (name, k), lambda name=name, k=k: getattr(ts, name)(k)))
    for ids in ([n], [-1], [-2], [2**31 - 1], [0, 0], [], [0, n], [2**32], [2**31]):
        out.append(("Tree(ts, tracked_samples=%r)" % ids, lambda ids=ids: tskit.Tree(ts, tracked_samples=ids).first()))
        out.append(("ts.simplify(%r)" % ids, lambda ids=ids: ts.simplify(ids)))
        out.append(("ts.subset(%r)" % ids, lambda ids=ids: ts.subset(ids)))
        out.append(("ts.variants(samples=%r)" % ids, lambda ids=ids: consume(ts.variants(samples=ids))))
        out.append(("ts.genotype_matrix(samples=%r)" % ids, lambda ids=ids: ts.genotype_matrix(samples=ids)))
        out.append(("ts.haplotypes(samples=%r)" % ids, lambda ids=ids: consume(ts.haplotypes(samples=ids))))
        out.append(("ts.ibd_segments(within=%r)" % ids, lambda ids=ids: ts.ibd_segments(within=ids, store_segments=True)))
        out.append(("ts.ibd_segments(between=[%r,[0]])" % ids, lambda ids=ids: ts.ibd_segments(between=[ids, [0]], store_pairs=True)))
        out.append(("tables.link_ancestors(%r, [0])" % ids, lambda ids=ids: ts.dump_tables().link_ancestors(ids, [0])))
        out.append(("tables.link_ancestors([0], %r)" % ids, lambda ids=ids: ts.dump_tables().link_ancestors([0], ids)))
        out.append(("ts.delete_sites(%r)" % ids, lambda ids=ids: ts.delete_sites(ids)))
        for stat in ("diversity", "segregating_sites", "Tajimas_D", "allele_frequency_spectrum"):
            for mode in ("site", "branch", "node"):
                out.append(("ts.%s(sample_sets=[%r], mode=%s)" % (stat, ids, mode),
                            lambda ids=ids, stat=stat, mode=mode: getattr(ts, stat)(sample_sets=[ids], mode=mode)))
        out.append(("ts.divergence([[0], %r])" % ids, lambda ids=ids: ts.divergence([[0], ids], indexes=[(0, 1)])))
        out.append(("ts.genetic_relatedness_vector(nodes=%r)" % ids,
                    lambda ids=ids: ts.genetic_relatedness_vector(np.ones((ts.num_samples, 1)), nodes=ids, mode="branch")))
    for ix in ([(0, 1)], [(0, 2)], [(-1, 0)], [(2**31, 0)], [], [(0,)], [(0, 1, 2)]):
        out.append(("ts.divergence(indexes=%r)" % ix, lambda ix=ix: ts.divergence([[0], list(ts.samples())[-1:]], indexes=ix)))
        out.append(("ts.f4(indexes=%r)" % ix, lambda ix=ix: ts.f4([[0]] * 4, indexes=ix)))
    for w in ([0, L], [0, NAN, L], [0, 0, L], [L, 0], [0, L / 2], [-1, L], [0, L + 1], [0, INF], [], [0], [NAN, NAN], "trees", "sites"):
        for mode in ("site", "branch", "node"):
            out.append(("ts.diversity(windows=%r, mode=%s)" % (w, mode), lambda w=w, mode=mode: ts.diversity(windows=w, mode=mode)))
        out.append(("ts.pair_coalescence_counts(windows=%r)" % (w,), lambda w=w: ts.pair_coalescence_counts(windows=w)))
        out.append(("ts.genetic_relatedness_vector(windows=%r)" % (w,),
                    lambda w=w: ts.genetic_relatedness_vector(np.ones((ts.num_samples, 2)), windows=w, mode="branch")))
        out.append(("ts.keep_intervals([%r])" % (w,), lambda w=w: ts.keep_intervals([w]) if not isinstance(w, str) else None))
        out.append(("ts.delete_intervals([%r])" % (w,), lambda w=w: ts.delete_intervals([w]) if not isinstance(w, str) else None))
    for tb in ([0, 1], [1, 0], [0, NAN], [0, 0], [-1, 1], [0, INF], [], [INF]):
        out.append(("ts.pair_coalescence_counts(time_windows=%r)" % tb, lambda tb=tb: ts.pair_coalescence_counts(time_windows=np.array(tb))))
        out.append(("ts.pair_coalescence_quantiles(%r)" % tb, lambda tb=tb: ts.pair_coalescence_quantiles(np.array(tb))))
    for x in (NAN, INF, -INF, -1.0, 0.0, 1e300):
        out.append(("ts.decapitate(%r)" % x, lambda x=x: ts.decapitate(x)))
        out.append(("ts.split_edges(%r)" % x, lambda x=x: ts.split_edges(x)))
        out.append(("tables.delete_older(%r)" % x, lambda x=x: ts.dump_tables().delete_older(x)))
    for g in ([], [0], [0] * (ts.num_samples + 1), [5] * ts.num_samples, [-2] * ts.num_samples, [64] * ts.num_samples, [127] * ts.num_samples):
        out.append(("tree.map_mutations(%r)" % g, lambda g=g: ts.first().map_mutations(np.array(g, dtype=np.int8), ["A", "C"])))
    out.append(("ts.extend_haplotypes()", lambda: ts.extend_haplotypes()))
    for k in (-1, 0, 2**31, 2**32):
        out.append(("Tree(ts, root_threshold=%r)" % k, lambda k=k: tskit.Tree(ts, root_threshold=k).first()))
    return [(desc + ": " + nm, f) for nm, f in out]


TABLES = ["nodes", "edges", "sites", "mutations", "migrations", "individuals", "populations", "provenances"]


def table_cases(t, ts, desc):
    """row and column operations of each table with out-of-range rows, wrong-length columns, bad offsets"""
    out = []
    for name in TABLES:
        n = len(getattr(t, name))
        for k in bad_ids(n):
            out.append(("%s.truncate(%r)" % (name, k), lambda name=name, k=k: getattr(t.copy(), name).truncate(k)))
            out.append(("%s[%r]" % (name, k), lambda name=name, k=k: getattr(t.copy(), name)[k]))
            out.append(("%s.extend(self copy, [%r])" % (name, k),
                        lambda name=name, k=k: getattr(t.copy(), name).ll_table.extend(
                            getattr(t, name).copy().ll_table, row_indexes=np.array([k]))))
            out.append(("%s[[%r]] (index array)" % (name, k), lambda name=name, k=k: getattr(t.copy(), name)[[k]]))
        for ln in (0, max(n - 1, 0), n, n + 1):
            out.append(("%s.keep_rows(mask of length %d)" % (name, ln),
                        lambda name=name, ln=ln: (lambda c: (getattr(c, name).keep_rows(np.arange(ln) % 2 == 0), follow_up(c)))(t.copy())))
        cols = getattr(t, name).asdict()
        for col in list(cols):
            if col.endswith("_schema"):
                continue
            a = cols[col]
            variants = [("one element short", a[:-1] if len(a) else a), ("one element long", np.concatenate([a, a[:1]]) if len(a) else a)]
            if col.endswith("_offset") and len(a) > 1:
                b1 = a.copy(); b1[-1] += 1
                b2 = a.copy(); b2[0] = 1
                b3 = a.copy()[::-1].copy()
                b4 = a.copy(); b4[-1] = 2**63
                b5 = a.copy(); b5[len(a) // 2] = 2**64 - 1
                variants += [("last offset + 1", b1), ("first offset 1", b2), ("offsets reversed", b3), ("last offset 2^63", b4),
                             ("middle offset 2^64-1", b5)]
            for vn, v in variants:
                for meth in ("set_columns", "append_columns"):
                    def f(name=name, col=col, v=v, meth=meth):
                        c = t.copy()
                        d = getattr(c, name).asdict()
                        d.pop("metadata_schema", None)
                        d[col] = v
                        try:
                            getattr(getattr(c, name), meth)(**d)
                        except Exception:
                            pass
                        follow_up(c)
                    out.append(("%s.%s(%s %s)" % (name, meth, col, vn), f))
    n = ts.num_nodes
    for ids in ([n], [-1], [2**31 - 1], [0, 0], [], [2**32]):
        for k in bad_ids(ts.num_sites)[:9]:
            out.append(("Variant(samples=%r).decode(%r)" % (ids, k), lambda ids=ids, k=k: tskit.Variant(ts, samples=ids).decode(k)))
        out.append(("write_vcf(individuals=%r)" % ids, lambda ids=ids: ts.write_vcf(io.StringIO(), individuals=ids)))
    for k in bad_ids(ts.num_sites):
        out.append(("Variant().decode(%r)" % k, lambda k=k: tskit.Variant(ts).decode(k)))
    for u in bad_ids(n):
        out.append(("tree.as_newick(root=%r)" % u, lambda u=u: ts.first().as_newick(root=u)))
        out.append(("tree.as_newick(root=%r, node_labels)" % u, lambda u=u: ts.first().as_newick(root=u, node_labels={0: "x"})))
    for pr in (-1, 0, 17, 100, 2**31):
        out.append(("tree.as_newick(precision=%r)" % pr, lambda pr=pr: [tr.as_newick(root=r, precision=pr) for tr in ts.trees() for r in tr.roots]))
    for nn, rk in ((3, (0, 5)), (3, (9, 0)), (0, (0, 0)), (-1, (0, 0)), (3, (-1, 0)), (3, (2**64, 0)), (40, (10**30, 0))):
        out.append(("Tree.unrank(%r, %r)" % (nn, rk), lambda nn=nn, rk=rk: tskit.Tree.unrank(nn, rk)))
    # further statistics / comparison / export entry points
    S = list(ts.samples())
    ns = len(S)
    for ids in ([n], [-1], [2**31 - 1], [0, 0], [], [2**32]):
        out.append(("ts.mean_descendants([%r])" % ids, lambda ids=ids: ts.mean_descendants([ids])))
        out.append(("ts.genealogical_nearest_neighbours(focal=%r)" % ids, lambda ids=ids: ts.genealogical_nearest_neighbours(ids, [S])))
        out.append(("ts.genealogical_nearest_neighbours(sample_sets=[%r])" % ids, lambda ids=ids: ts.genealogical_nearest_neighbours(S[:1], [ids])))
        out.append(("ts.alignments(samples=%r)" % ids, lambda ids=ids: consume(ts.alignments(samples=ids, reference_sequence="A" * int(ts.sequence_length)))))
        out.append(("ts.ld_matrix(sites=[%r, [0]])" % ids, lambda ids=ids: ts.ld_matrix(sites=[ids, [0]])))
        out.append(("ts.ld_matrix(sample_sets=[%r])" % ids, lambda ids=ids: ts.ld_matrix(sample_sets=[ids])))
        out.append(("ts.union(ts, mapping=%r)" % ids, lambda ids=ids: ts.union(ts, (ids * n)[:n] if ids else [], check_shared_equality=False)))
        out.append(("ts.trees(tracked_samples=%r, sample_lists)" % ids, lambda ids=ids: [tr.num_tracked_samples() for tr in ts.trees(tracked_samples=ids, sample_lists=True)]))
        out.append(("ts.pair_coalescence_counts(sample_sets=[%r])" % ids, lambda ids=ids: ts.pair_coalescence_counts(sample_sets=[ids, S])))
        out.append(("ts.pair_coalescence_rates(sample_sets=[%r])" % ids, lambda ids=ids: ts.pair_coalescence_rates(np.array([0, 1, np.inf]), sample_sets=[ids, S])))
    for shape in ((0, 1), (ns, 0), (ns + 1, 1), (max(ns - 1, 0), 1), (ns, 1), (1,)):
        W = np.ones(shape)
        for meth in ("trait_covariance", "trait_correlation", "general_stat"):
            for mode in ("site", "branch", "node"):
                def f(W=W, meth=meth, mode=mode):
                    if meth == "general_stat":
                        return ts.general_stat(W, lambda x: x, W.shape[1] if W.ndim == 2 else 1, mode=mode)
                    return getattr(ts, meth)(W, mode=mode)
                out.append(("ts.%s(W of shape %r, mode=%s)" % (meth, shape, mode), f))
        out.append(("ts.trait_linear_model(W of shape %r)" % (shape,), lambda W=W: ts.trait_linear_model(W, np.ones((ns, 1)))))
        out.append(("ts.trait_linear_model(Z of shape %r)" % (shape,), lambda W=W: ts.trait_linear_model(np.ones((ns, 1)), W)))
        out.append(("ts.genetic_relatedness_vector(W of shape %r)" % (shape,), lambda W=W: ts.genetic_relatedness_vector(W, mode="branch")))
        out.append(("ts.genetic_relatedness_weighted(W of shape %r)" % (shape,), lambda W=W: ts.genetic_relatedness_weighted(W, indexes=[(0, 0)])))
    for a, b in ((-1, 0), (0, -1), (0, ts.num_sites), (ts.num_sites, 0), (2**31, 0), (2**32, 0)):
        out.append(("LdCalculator.r2(%r, %r)" % (a, b), lambda a=a, b=b: tskit.LdCalculator(ts).r2(a, b)))
        out.append(("LdCalculator.r2_array(%r)" % a, lambda a=a: tskit.LdCalculator(ts).r2_array(a, max_mutations=3)))
    for nn in (-1, 0, 1, 2):       # (a request for 2^31 leaves is legitimate and simply takes that long: not a case)
        for gen in ("generate_star", "generate_comb", "generate_balanced", "generate_random_binary"):
            out.append(("Tree.%s(%r)" % (gen, nn), lambda nn=nn, gen=gen: getattr(tskit.Tree, gen)(nn)))
        out.append(("Tree.generate_balanced(5, arity=%r)" % nn, lambda nn=nn: tskit.Tree.generate_balanced(5, arity=nn)))
    for eps in (NAN, INF, -1.0, 0.0, 1e300):
        out.append(("tree.split_polytomies(epsilon=%r)" % eps, lambda eps=eps: ts.first().split_polytomies(epsilon=eps, random_seed=1)))
        out.append(("ts.haplotypes(left=%r)" % eps, lambda eps=eps: consume(ts.haplotypes(left=eps))))
        out.append(("ts.variants(left=%r)" % eps, lambda eps=eps: consume(ts.variants(left=eps))))
        out.append(("ts.kc_distance(ts, %r)" % eps, lambda eps=eps: ts.kc_distance(ts, lambda_=eps)))
    out.append(("kc / rf distance to a tree with other samples", lambda: (ts.first().kc_distance(tskit.Tree.generate_star(7)), ts.first().rf_distance(tskit.Tree.generate_star(7)))))
    out.append(("ts.concatenate / impute / as_fasta / as_nexus / to_macs", lambda: (ts.concatenate(ts), ts.impute_unknown_mutations_time(), ts.as_fasta(reference_sequence="A" * int(ts.sequence_length)), ts.as_nexus(include_alignments=False), ts.to_macs())))
    out.append(("edge_diffs / coiterate / mutations_edge", lambda: (consume(ts.edge_diffs()), consume(ts.coiterate(ts)), ts.mutations_edge, ts.individuals_nodes, ts.nodes_time)))
    for blob in (b"", b"garbage", b"\x89KAS\r\n\x1a\n" + b"\0" * 56, b"\x89KAS\r\n\x1a\n" + b"\xff" * 56):
        out.append(("tskit.load(%r...)" % blob[:12], lambda blob=blob: tskit.load(io.BytesIO(blob))))
    return [(desc + ": " + nm, f) for nm, f in out]


def huge_id_clause(run, ts, desc):
    """identifiers the Tree accessors must refuse: anything outside [-1, num_nodes] (num_nodes is the virtual root)"""
    n = ts.num_nodes
    t = ts.first()
    for u in (-2, n + 1, 2**31 - 1, 2**31, 2**32, 2**32 + 1, 2**32 + n - 1, 2**63, 2**64):
        for m in ("parent", "left_child", "right_child", "left_sib", "right_sib", "time", "is_sample", "num_samples",
                  "num_tracked_samples", "depth", "population", "branch_length"):
            run.case()
            try:
                got = getattr(t, m)(u)
            except Exception:
                continue
            run.violation("an identifier outside [-1, num_nodes] is rejected by the Tree accessors",
                          {"case": desc, "call": "Tree.%s(%d)" % (m, u), "num_nodes": n}, "returned %r" % (got,), "an exception")
        for m in ("is_descendant", "mrca"):
            for a, b in ((u, 0), (0, u)):
                run.case()
                try:
                    got = getattr(t, m)(a, b)
                except Exception:
                    continue
                run.violation("an identifier outside [-1, num_nodes] is rejected by the Tree accessors",
                              {"case": desc, "call": "Tree.%s(%d, %d)" % (m, a, b), "num_nodes": n}, "returned %r" % (got,), "an exception")


# ------------------------------------------------------------------------------------------ invalid table collections
def corruptions(t):
    """(description, function applied to a copy of t) - each makes the collection invalid in one way"""
    n = t.nodes.num_rows
    out = []
    big = [-2, n, n + 1, 2**31 - 1]

    def setcol(table, col, row, val):
        def f(c):
            tb = getattr(c, table)
            if tb.num_rows == 0:
                return
            a = getattr(tb, col).copy()
            a[row % len(a)] = val
            setattr(tb, col, a)
        return ("%s.%s[%d] = %r" % (table, col, row, val), f)
    for v in big:
        for col in ("parent", "child"):
            out.append(setcol("edges", col, 0, v))
            out.append(setcol("edges", col, -1, v))
        for col in ("node", "site", "parent"):
            out.append(setcol("mutations", col, 0, v))
            out.append(setcol("mutations", col, -1, v))
        for col in ("population", "individual"):
            out.append(setcol("nodes", col, 0, v))
        out.append(setcol("individuals", "parents", 0, v))
        for col in ("node", "source", "dest"):
            out.append(setcol("migrations", col, 0, v))
    for v in (NAN, INF, -1.0, 1e300):
        out.append(setcol("edges", "left", 0, v))
        out.append(setcol("edges", "right", -1, v))
        out.append(setcol("sites", "position", 0, v))
        out.append(setcol("sites", "position", -1, v))
        out.append(setcol("nodes", "time", 0, v))
        out.append(setcol("nodes", "time", -1, v))
        out.append(setcol("mutations", "time", 0, v))
        out.append(setcol("migrations", "time", 0, v))
        out.append(setcol("migrations", "left", 0, v))

        def sl(c, v=v):
            c.sequence_length = v
        out.append(("sequence_length = %r" % v, sl))
    out.append(("sequence_length = 0", lambda c: setattr(c, "sequence_length", 0.0)))

    def rev_edges(c):
        e = c.edges.copy()
        c.edges.clear()
        for r in reversed(list(e)):
            c.edges.append(r)
    out.append(("edges reversed", rev_edges))

    def dup_site(c):
        if c.sites.num_rows:
            c.sites.append(c.sites[0])
    out.append(("first site appended again", dup_site))
    ne = t.edges.num_rows
    for v in ([ne] * ne, [-1] * ne, [2**31 - 1] * ne, [0] * ne, list(range(ne))[:-1], list(range(ne)) + [0]):
        def badidx(c, v=v):
            c.drop_index()
            ins = np.array(v, dtype=np.int32)
            c.indexes = tskit.TableCollectionIndexes(edge_insertion_order=ins, edge_removal_order=ins)
        out.append(("indexes := %r" % (v[:6],), badidx))
    return out


def table_ops(n):
    ops = [
        ("sort()", lambda c: c.sort()),
        ("sort(edge_start=1)", lambda c: c.sort(edge_start=1)),
        ("canonicalise()", lambda c: c.canonicalise()),
        ("simplify()", lambda c: c.simplify()),
        ("simplify([0, 1])", lambda c: c.simplify([0, 1])),
        ("simplify(keep_unary, filter off)", lambda c: c.simplify([0], keep_unary=True, filter_sites=False, filter_populations=False,
                                                                    filter_individuals=False, filter_nodes=False)),
        ("subset([0, 1])", lambda c: c.subset([0, 1])),
        ("subset(all, reorder off)", lambda c: c.subset(list(range(c.nodes.num_rows)), reorder_populations=False, remove_unreferenced=False)),
        ("union(copy, identity map)", lambda c: c.union(c.copy(), list(range(c.nodes.num_rows)), check_shared_equality=False)),
        ("union(copy, null map)", lambda c: c.union(c.copy(), [-1] * c.nodes.num_rows)),
        ("link_ancestors([0], [n-1])", lambda c: c.link_ancestors([0], [c.nodes.num_rows - 1])),
        ("ibd_segments()", lambda c: c.ibd_segments(store_pairs=True)),
        ("delete_older(0.5)", lambda c: c.delete_older(0.5)),
        ("delete_intervals([[0, 1]])", lambda c: c.delete_intervals([[0, 1]])),
        ("keep_intervals([[0, 1]])", lambda c: c.keep_intervals([[0, 1]])),
        ("ltrim()", lambda c: c.ltrim()), ("rtrim()", lambda c: c.rtrim()), ("trim()", lambda c: c.trim()),
        ("delete_sites([0])", lambda c: c.delete_sites([0])),
        ("compute_mutation_parents()", lambda c: c.compute_mutation_parents()),
        ("compute_mutation_times()", lambda c: c.compute_mutation_times()),
        ("deduplicate_sites()", lambda c: c.deduplicate_sites()),
        ("build_index()", lambda c: c.build_index()),
        ("tree_sequence() and all trees", lambda c: [tr.num_roots for tr in c.tree_sequence().trees()]),
        ("tree_sequence() genotypes", lambda c: c.tree_sequence().genotype_matrix()),
        ("dump + load", lambda c: (lambda b: (c.dump(b), b.seek(0), tskit.TableCollection.load(b)))(io.BytesIO())),
        ("equals(copy) / asdict / str", lambda c: (c.equals(c.copy()), c.asdict(), str(c), c.nbytes)),
    ]
    return ops


def follow_up(c):
    """a later call on the same object must be safe too"""
    try:
        c.sort()
    except Exception:
        pass
    try:
        c.build_index()
        ts = c.tree_sequence()
        for tr in ts.trees():
            tr.num_roots
    except Exception:
        pass
    str(c)


def main():
    run = O.Run("c09_adversarial")
    N = run.budget(3, 10)
    run.scope = ("%d seeded small valid collections (all eight tables populated): (a) every Tree/TreeSequence accessor, "
                 "seek, statistic, subset/simplify/ibd/link_ancestors entry with ids in {-2,-1,0,n-1,n,n+1,2^31-1,2^31,"
                 "2^32,2^32+1,2^63,2^64}, positions/windows with -1, L, L+1, nan, inf, empty/duplicate lists; (b) each "
                 "single-cell corruption (ids -2, n, n+1, 2^31-1; coordinates nan, inf, -1, 1e300; bad sequence_length; "
                 "reversed edges; indexes with out-of-range / short / long entries) x each table-collection algorithm, "
                 "followed by a second use of the same object; each call in a forked child (signal or >20 s = violation); "
                 "(c) ids outside [-1, num_nodes] refused by the Tree accessors; (d) truncate / index / extend / keep_rows / "
                 "set_columns / append_columns of each of the eight tables with out-of-range rows, columns one element "
                 "short or long and ill-formed offsets, Variant.decode, write_vcf, as_newick, Tree.unrank and load with bad "
                 "arguments" % N)
    done = 0
    for k in range(N * 6):
        if done >= N:
            break
        t = O.random_tables(run.rng, max_samples=4, max_internal=4, max_breaks=2, individuals=True, populations=True,
                            migrations=True, odd_flags=False)
        if t.edges.num_rows < 2 or t.sites.num_rows < 1 or t.mutations.num_rows < 1:
            continue
        try:
            ts = t.tree_sequence()
        except Exception:
            continue
        done += 1
        desc = "seed=%d case=%d" % (run.seed, k)
        brief = O.brief(t)
        # (a) valid tree sequence, adversarial arguments
        for nm, f in tree_cases(ts, desc):
            run.case(nm.split(":")[1].split("(")[0])
            f._nm = nm
            died = forked(f)
            if died:
                run.violation("an API call with adversarial arguments returns or raises", {"case": nm, "tables": brief}, died,
                              "a result or a Python exception")
        huge_id_clause(run, ts, desc)
        for nm, f in table_cases(t, ts, desc):
            run.case(nm.split(":")[1].split("(")[0])
            f._nm = nm
            died = forked(f)
            if died:
                run.violation("a table / variant / export call with adversarial arguments returns or raises",
                              {"case": nm, "tables": brief}, died, "a result or a Python exception")
        # (b) invalid collections x algorithms
        for cdesc, cf in corruptions(t):
            for odesc, of in table_ops(t.nodes.num_rows):
                def f(cf=cf, of=of):
                    c = t.copy()
                    cf(c)
                    try:
                        of(c)
                    except Exception:
                        pass
                    follow_up(c)
                run.case(odesc)
                died = forked(f)
                if died:
                    run.violation("a table algorithm on an invalid collection returns or raises (and leaves the object usable)",
                                  {"case": desc, "corruption": cdesc, "call": "TableCollection." + odesc, "tables": brief}, died,
                                  "a result or a Python exception")
        if run.violations:
            break
    run.sample({"children": dict(STATS)})
    if STATS["harness_error"] > 0.02 * max(1, sum(STATS.values())):
        run.violation("the harness exercises the API (few AttributeError/NameError outcomes)", dict(STATS), STATS["harness_error"], "< 2%")
    run.finish()


if __name__ == "__main__":
    O.run_main(main)
