"""Bounded stand-in for C10: every proper prefix and every structural-region byte substitution of dumped files is
rejected, or loads to exactly the same object."""
import os
import struct
import tempfile

import numpy as np
import tskit

from standins import oracle as O


def try_load(path, how):
    try:
        if how == "ts":
            return tskit.load(path).dump_tables(), None
        if how == "tables":
            return tskit.TableCollection.load(path), None
        if how == "skip":
            return tskit.TableCollection.load(path, skip_tables=True), None
        if how == "skipref":
            return tskit.load(path, skip_reference_sequence=True).dump_tables(), None
    except Exception as e:
        return None, "%s: %s" % (type(e).__name__, e)


def main():
    run = O.Run("c10_corrupt")
    N = run.budget(3, 12)
    run.scope = ("%d seeded dumped files: every proper prefix x 4 load paths; every byte of the header, the descriptors and "
                 "the key block substituted by {0, old^1, old+1, 255, same-width type codes}; second object on a stream" % N)
    d = tempfile.mkdtemp(prefix="vf_c10_")
    try:
        for k in range(N):
            t = O.random_tables(run.rng, sites=True, individuals=True, populations=True, migrations=(k % 2 == 0), max_breaks=2)
            t.build_index()
            if k % 2 == 0:
                t.reference_sequence.data = "ACGT"
            try:
                ts = t.tree_sequence()
            except tskit.LibraryError:
                continue
            p = os.path.join(d, "a.trees")
            ts.dump(p)
            raw = open(p, "rb").read()
            ref = tskit.TableCollection.load(p)
            n_items = struct.unpack("<I", raw[12:16])[0]
            first_array = min(struct.unpack("<Q", raw[64 + 64 * j + 24: 64 + 64 * j + 32])[0] for j in range(n_items))
            desc = {"case": "seed=%d case=%d" % (run.seed, k), "file_size": len(raw), "items": n_items}
            import re
            opt = re.compile(r"(metadata_schema$|^metadata$|^time_units$|^edges/metadata|^migrations/metadata|^mutations/time$|"
                             r"^individuals/parents|^indexes/|^reference_sequence/)")
            optional_key_bytes = set()
            for j in range(n_items):
                ks, kl = struct.unpack("<QQ", raw[64 + 64 * j + 8: 64 + 64 * j + 24])
                if opt.search(raw[ks:ks + kl].decode("latin-1")):
                    optional_key_bytes.update(range(ks, ks + kl))
            q = os.path.join(d, "b.trees")
            # ---- every proper prefix
            step = 1 if run.tier == "thorough" or len(raw) < 6000 else 7
            cuts = sorted(set(list(range(0, len(raw), step)) + list(range(max(0, len(raw) - 70), len(raw))) + list(range(0, 200))))
            for cut in cuts:
                if cut >= len(raw):
                    continue
                open(q, "wb").write(raw[:cut])
                for how in ("ts", "tables", "skip", "skipref"):
                    run.case()
                    got, err = try_load(q, how)
                    if got is not None:
                        run.violation("every proper prefix of a file is rejected", dict(desc, prefix=cut, path=how), "loaded", "exception")
                        break
                if run.violations:
                    break
            # ---- structural-region substitutions
            positions = list(range(0, first_array))
            if run.tier == "quick" and len(positions) > 1500:
                positions = sorted(run.rng.sample(positions, 1500) + [64 + 64 * j for j in range(n_items)])
            for pos in positions:
                old = raw[pos]
                for new in {0, old ^ 1, (old + 1) % 256, 255, 4, 5, 6, 7, 8, 9} - {old}:
                    b = bytearray(raw)
                    b[pos] = new
                    open(q, "wb").write(bytes(b))
                    run.case()
                    got, err = try_load(q, "tables")
                    if got is not None and not (O.same_tables(got, ref) and got.has_index() == ref.has_index()):
                        if pos in optional_key_bytes:
                            # recorded finding: the key text of an OPTIONAL column altered -> the column is silently absent
                            run.violation("a corrupted structural byte is rejected or leaves the loaded object unchanged "
                                          "[key of an optional column renamed]", dict(desc, offset=pos, old=old, new=new),
                                          "loaded without that optional column", "exception or identical")
                            continue
                        run.violation("a corrupted structural byte is rejected or leaves the loaded object unchanged",
                                      dict(desc, offset=pos, old=old, new=new), "loaded a different object", "exception or identical")
                        break
                    got2, err2 = try_load(q, "ts")
                    if (got is None) != (got2 is None) and got2 is not None and not O.same_tables(got2, ref):
                        run.violation("both load paths agree on a corrupted file", dict(desc, offset=pos, old=old, new=new), (err, err2), "same verdict")
                if any("[key of an optional" not in v["clause"] for v in run.violations):
                    break
            # ---- every item's type code replaced by every other type code: must be rejected
            for j in range(n_items):
                pos = 64 + 64 * j
                old = raw[pos]
                ks, kl = struct.unpack("<QQ", raw[pos + 8: pos + 24])
                key = raw[ks:ks + kl].decode("latin-1")
                for new in range(10):
                    if new == old:
                        continue
                    b = bytearray(raw)
                    b[pos] = new
                    open(q, "wb").write(bytes(b))
                    for how in ("tables", "ts"):
                        run.case()
                        got, err = try_load(q, how)
                        if got is not None and key.endswith("_offset") and {old, new} == {5, 7} and O.same_tables(got, ref):
                            continue      # offset columns are legal in 32 and 64 bits; the object is unchanged
                        if got is not None:
                            run.violation("a column whose stored type code is altered is rejected",
                                          dict(desc, key=key, old_type=old, new_type=new, path=how), "loaded", "exception")
                            break
                if run.violations and any("[key of an optional" not in v["clause"] for v in run.violations):
                    break
            # ---- second object on a stream truncated
            with open(q, "wb") as f:
                f.write(raw)
                f.write(raw[: len(raw) - 5])
            with open(q, "rb") as f:
                tskit.TableCollection.load(f)
                try:
                    tskit.TableCollection.load(f)
                    run.violation("a truncated second object on a stream is rejected", desc, "loaded", "exception")
                except Exception:
                    pass
            if any("[key of an optional" not in v["clause"] for v in run.violations):
                break
    finally:
        import shutil
        shutil.rmtree(d, ignore_errors=True)
    run.sample({"note": "see scope"})
    run.finish()


if __name__ == "__main__":
    main()
