"""Bounded stand-in for C10: every proper prefix and every structural-region byte substitution of dumped files is
rejected, or loads to exactly the same object."""
import os
import struct
import tempfile

import numpy as np
import tskit

from standins import oracle as O


def try_load(path, how):
    try:
        if how == "ts":
            return tskit.load(path).dump_tables(), None
        if how == "tables":
            return tskit.TableCollection.load(path), None
        if how == "skip":
            return tskit.TableCollection.load(path, skip_tables=True), None
        if how == "skipref":
            return tskit.load(path, skip_reference_sequence=True).dump_tables(), None
    except Exception as e:
        return None, "%s: %s" % (type(e).__name__, e)


def main():
    run = O.Run("c10_corrupt")
    N = run.budget(3, 12)
    run.scope = ("%d seeded dumped files: every proper prefix x 4 load paths; every byte of the header, the descriptors and "
                 "the key block substituted by {0, old^1, old+1, 255, same-width type codes}; every type code replaced; each column "
                 "made one element longer/shorter than its partner (32- and 64-bit offsets); second object on a stream" % N)
    d = tempfile.mkdtemp(prefix="vf_c10_")
    try:
        for k in range(N):
            t = O.random_tables(run.rng, sites=True, individuals=True, populations=True, migrations=(k % 2 == 0), max_breaks=2)
            t.build_index()
            if k % 2 == 0:
                t.reference_sequence.data = "ACGT"
            try:
                ts = t.tree_sequence()
            except tskit.LibraryError:
                continue
            p = os.path.join(d, "a.trees")
            ts.dump(p)
            raw = open(p, "rb").read()
            ref = tskit.TableCollection.load(p)
            n_items = struct.unpack("<I", raw[12:16])[0]
            first_array = min(struct.unpack("<Q", raw[64 + 64 * j + 24: 64 + 64 * j + 32])[0] for j in range(n_items))
            desc = {"case": "seed=%d case=%d" % (run.seed, k), "file_size": len(raw), "items": n_items}
            import re
            opt = re.compile(r"(metadata_schema$|^metadata$|^time_units$|^edges/metadata|^migrations/metadata|^mutations/time$|"
                             r"^individuals/parents|^indexes/|^reference_sequence/)")
            optional_key_bytes = set()
            for j in range(n_items):
                ks, kl = struct.unpack("<QQ", raw[64 + 64 * j + 8: 64 + 64 * j + 24])
                if opt.search(raw[ks:ks + kl].decode("latin-1")):
                    optional_key_bytes.update(range(ks, ks + kl))
            q = os.path.join(d, "b.trees")
            # ---- every proper prefix
            step = 1 if run.tier == "thorough" or len(raw) < 6000 else 7
            cuts = sorted(set(list(range(0, len(raw), step)) + list(range(max(0, len(raw) - 70), len(raw))) + list(range(0, 200))))
            for cut in cuts:
                if cut >= len(raw):
                    continue
                open(q, "wb").write(raw[:cut])
                for how in ("ts", "tables", "skip", "skipref"):
                    run.case()
                    got, err = try_load(q, how)
                    if got is not None:
                        run.violation("every proper prefix of a file is rejected", dict(desc, prefix=cut, path=how), "loaded", "exception")
                        break
                if run.violations:
                    break
            # ---- structural-region substitutions
            positions = list(range(0, first_array))
            if run.tier == "quick" and len(positions) > 1500:
                positions = sorted(run.rng.sample(positions, 1500) + [64 + 64 * j for j in range(n_items)])
            for pos in positions:
                old = raw[pos]
                for new in {0, old ^ 1, (old + 1) % 256, 255, 4, 5, 6, 7, 8, 9} - {old}:
                    b = bytearray(raw)
                    b[pos] = new
                    open(q, "wb").write(bytes(b))
                    run.case()
                    got, err = try_load(q, "tables")
                    if got is not None and not (O.same_tables(got, ref) and got.has_index() == ref.has_index()):
                        if pos in optional_key_bytes:
                            # recorded finding: the key text of an OPTIONAL column altered -> the column is silently absent
                            run.violation("a corrupted structural byte is rejected or leaves the loaded object unchanged "
                                          "[key of an optional column renamed]", dict(desc, offset=pos, old=old, new=new),
                                          "loaded without that optional column", "exception or identical")
                            continue
                        run.violation("a corrupted structural byte is rejected or leaves the loaded object unchanged",
                                      dict(desc, offset=pos, old=old, new=new), "loaded a different object", "exception or identical")
                        break
                    got2, err2 = try_load(q, "ts")
                    if (got is None) != (got2 is None) and got2 is not None and not O.same_tables(got2, ref):
                        run.violation("both load paths agree on a corrupted file", dict(desc, offset=pos, old=old, new=new), (err, err2), "same verdict")
                if any("[key of an optional" not in v["clause"] for v in run.violations):
                    break
            # ---- every item's type code replaced by every other type code: must be rejected
            for j in range(n_items):
                pos = 64 + 64 * j
                old = raw[pos]
                ks, kl = struct.unpack("<QQ", raw[pos + 8: pos + 24])
                key = raw[ks:ks + kl].decode("latin-1")
                for new in range(10):
                    if new == old:
                        continue
                    b = bytearray(raw)
                    b[pos] = new
                    open(q, "wb").write(bytes(b))
                    for how in ("tables", "ts"):
                        run.case()
                        got, err = try_load(q, how)
                        if got is not None and key.endswith("_offset") and {old, new} == {5, 7} and O.same_tables(got, ref):
                            continue      # offset columns are legal in 32 and 64 bits; the object is unchanged
                        if got is not None:
                            run.violation("a column whose stored type code is altered is rejected",
                                          dict(desc, key=key, old_type=old, new_type=new, path=how), "loaded", "exception")
                            break
                if run.violations and any("[key of an optional" not in v["clause"] for v in run.violations):
                    break
            # ---- columns that disagree with each other, with 32- and with 64-bit offset columns
            try:
                import kastore
            except ImportError:
                kastore = None
            if kastore is not None:
                store = {kk: np.array(vv) for kk, vv in kastore.load(p, read_all=True).items()}
                for wide in (False, True):
                    base = dict(store)
                    if wide:
                        for kk in base:
                            if kk.endswith("_offset"):
                                base[kk] = base[kk].astype(np.uint64)
                    kastore.dump(base, q)
                    run.case()
                    got, err = try_load(q, "tables")
                    if got is None or not O.same_tables(got, ref):
                        run.violation("a consistent file loads to the same object with 32- and with 64-bit offset columns",
                                      dict(desc, wide=wide), err or "different object", "identical")
                        break
                    muts = []
                    for kk in sorted(base):
                        if kk.endswith("_offset"):
                            data_key = kk[: -len("_offset")]
                            if data_key in base:
                                a = base[data_key]
                                muts.append(("%s one element longer than its last offset" % data_key, data_key, np.concatenate([a, np.zeros(1, dtype=a.dtype)])))
                                if len(a):
                                    muts.append(("%s one element shorter than its last offset" % data_key, data_key, a[:-1]))
                            o = base[kk]
                            # (the population table's only column defines its row count: a longer or shorter offset
                            # column there is just another number of rows; same for the first provenance column)
                            defines_rows = kk in ("populations/metadata_offset", "provenances/timestamp_offset", "provenances/record_offset")
                            if not defines_rows:
                                muts.append(("%s one entry longer" % kk, kk, np.concatenate([o, o[-1:]])))
                            if len(o) > 1 and not defines_rows:
                                muts.append(("%s one entry shorter" % kk, kk, o[:-1]))
                                o2 = o.copy()
                                o2[-1] += 1
                                muts.append(("%s last entry + 1" % kk, kk, o2))
                        elif "/" in kk and not kk.endswith("_schema") and kk.split("/")[0] in ("nodes", "edges", "sites", "mutations", "migrations", "individuals") \
                                and (kk + "_offset") not in base and base[kk].ndim == 1 and len(base[kk]):
                            muts.append(("%s one row short" % kk, kk, base[kk][:-1]))
                    for what, kk, arr in muts:
                        dd = dict(base)
                        dd[kk] = arr
                        kastore.dump(dd, q)
                        for how in ("tables", "ts"):
                            run.case()
                            got, err = try_load(q, how)
                            if got is not None:
                                run.violation("a file whose columns disagree (data length vs last offset, row counts) is rejected",
                                              dict(desc, what=what, offsets_64bit=wide, path=how), "loaded", "exception")
                                break
                        if run.violations and any("[key of an optional" not in v["clause"] for v in run.violations):
                            break
                    if run.violations and any("[key of an optional" not in v["clause"] for v in run.violations):
                        break
            # ---- second object on a stream truncated
            with open(q, "wb") as f:
                f.write(raw)
                f.write(raw[: len(raw) - 5])
            with open(q, "rb") as f:
                tskit.TableCollection.load(f)
                try:
                    tskit.TableCollection.load(f)
                    run.violation("a truncated second object on a stream is rejected", desc, "loaded", "exception")
                except Exception:
                    pass
            if any("[key of an optional" not in v["clause"] for v in run.violations):
                break
    finally:
        import shutil
        shutil.rmtree(d, ignore_errors=True)
    run.sample({"note": "see scope"})
    run.finish()


if __name__ == "__main__":
    O.run_main(main)
