"""Bounded stand-in for C11: editing operations change only what they document (oracles over table rows)."""
import numpy as np
import tskit

from standins import oracle as O


def erows(t):
    return [(float(e.left), float(e.right), int(e.parent), int(e.child), e.metadata) for e in t.edges]


def srows(t):
    return [(float(s.position), s.ancestral_state, s.metadata) for s in t.sites]


def mrows(t):
    """mutations with site and parent resolved to content"""
    S = srows(t)
    M = list(t.mutations)

    def key(j):
        m = M[j]
        return (S[m.site], int(m.node), m.derived_state, m.metadata, repr(m.time))
    return [key(j) + ((key(M[j].parent) if M[j].parent != -1 else None),) for j in range(len(M))]


def grows(t):
    return [(float(g.left), float(g.right), int(g.node), int(g.source), int(g.dest), float(g.time), g.metadata) for g in t.migrations]


def untouched(a, b, names):
    for nm in names:
        ta, tb = getattr(a, nm), getattr(b, nm)
        if ta.num_rows != tb.num_rows or any(getattr(ta, c).tobytes() != getattr(tb, c).tobytes() for c in ta.column_names):
            return nm
    return None


def eff_time(t, m):
    return t.nodes.time[m.node] if tskit.is_unknown_time(m.time) else m.time


def main():
    run = O.Run("c11_edits")
    N = run.budget(300, 3000)
    run.scope = ("%d seeded small valid collections with edge/site/mutation/migration metadata x {ltrim, rtrim, trim, "
                 "delete_sites, keep_intervals, delete_intervals, delete_older} with boundary arguments (sites at the "
                 "leftmost edge start / rightmost end, cutoffs equal to node and mutation times)" % N)
    for k in range(N):
        t = O.random_tables(run.rng, sites=True, populations=(k % 2 == 0), migrations=(k % 4 == 0), max_breaks=3)
        if t.edges.num_rows == 0:
            continue
        if t.mutations.num_rows and k % 2 == 0:
            # known times on every mutation of the odd sites (each at its node's time: always valid)
            tm = np.array(t.mutations.time)
            for j, m in enumerate(t.mutations):
                if m.site % 2 == 1:
                    tm[j] = t.nodes.time[m.node]
            t.mutations.time = tm
        # known mutation times on some sites (valid: >= node time, <= parent mutation time)
        desc = {"case": "seed=%d case=%d" % (run.seed, k), "tables": O.brief(t), "edge_md": [e.metadata.decode() for e in t.edges]}
        run.case()
        lm, rm = float(np.min(t.edges.left)), float(np.max(t.edges.right))
        # ---- ltrim / rtrim / trim
        for op in ("ltrim", "rtrim", "trim"):
            u = t.copy()
            if op != "rtrim" and lm > 0 and run.rng.random() < 0.5 and not any(float(p) == lm for p in u.sites.position):
                u.sites.add_row(position=lm, ancestral_state="G", metadata=b"at-leftmost")   # a site exactly at the start
                u.sort()
            base = u.copy()
            try:
                getattr(u, op)(record_provenance=False)
            except ValueError:
                continue
            shift = lm if op in ("ltrim", "trim") else 0.0
            hi = rm if op in ("rtrim", "trim") else float(base.sequence_length)
            exp_e = [(l - shift, r - shift, p, c, md) for (l, r, p, c, md) in erows(base)]
            if erows(u) != exp_e:
                run.violation("%s shifts edge coordinates and keeps every other edge column incl. metadata" % op, desc, erows(u), exp_e)
            keep = [j for j, s in enumerate(base.sites) if (s.position >= shift) and (s.position < hi)]
            exp_s = [(float(base.sites[j].position) - shift, base.sites[j].ancestral_state, base.sites[j].metadata) for j in keep]
            if srows(u) != exp_s:
                run.violation("%s keeps exactly the sites inside the retained region (half-open), shifted" % op, desc, srows(u), exp_s)
            exp_g = [(l - shift, r - shift, n_, s_, d_, tm, md) for (l, r, n_, s_, d_, tm, md) in grows(base)]
            if grows(u) != exp_g:
                run.violation("%s shifts migrations and keeps their other columns incl. metadata" % op, desc, grows(u), exp_g)
            if u.sequence_length != hi - shift:
                run.violation("%s sequence_length" % op, desc, u.sequence_length, hi - shift)
            w = untouched(base, u, ["nodes", "individuals", "populations"])
            if w:
                run.violation("%s leaves %s untouched" % (op, w), desc, "changed", "unchanged")
        # ---- delete_sites
        if t.sites.num_rows:
            ids = sorted(run.rng.sample(range(t.sites.num_rows), run.rng.randint(1, t.sites.num_rows)))
            u = t.copy()
            u.delete_sites(ids, record_provenance=False)
            exp_s = [r for j, r in enumerate(srows(t)) if j not in ids]
            exp_m = [r for j, r in enumerate(mrows(t)) if t.mutations[j].site not in ids]
            if srows(u) != exp_s or mrows(u) != exp_m:
                run.violation("delete_sites removes exactly the listed sites and their mutations", dict(desc, ids=ids),
                              (srows(u), mrows(u)), (exp_s, exp_m))
            w = untouched(t, u, ["nodes", "edges", "individuals", "populations", "migrations"])
            if w:
                run.violation("delete_sites leaves %s untouched" % w, desc, "changed", "unchanged")
        # ---- keep_intervals / delete_intervals (no simplify)
        bps = O.breakpoints(t)
        L = float(t.sequence_length)
        cuts = sorted(set(run.rng.sample([x for x in bps] + [L / 3, L / 2], 2)))
        if len(cuts) == 2 and cuts[0] < cuts[1] and not t.migrations.num_rows:
            a, b = cuts
            for op, ivs in (("keep_intervals", [(a, b)]), ("delete_intervals", [(a, b)])):
                u = t.copy()
                getattr(u, op)(np.array(ivs), simplify=False, record_provenance=False)
                inside = (lambda x: a <= x < b) if op == "keep_intervals" else (lambda x: not (a <= x < b))
                pts = sorted(set(bps[:-1] + [a, b - 1e-9 if b > a else a] + [x + 1e-9 for x in bps[:-1]]))
                for x in pts:
                    if not (0 <= x < L):
                        continue
                    exp = O.parent_map_cols(t, x) if inside(x) else {}
                    if O.parent_map_cols(u, x) != exp:
                        run.violation("%s keeps the trees inside the kept region and empties the rest" % op, dict(desc, interval=(a, b), x=x),
                                      O.parent_map_cols(u, x), exp)
                        break
                exp_s = [r for r in srows(t) if inside(r[0])]
                if srows(u) != exp_s:
                    run.violation("%s keeps exactly the sites in the kept region" % op, dict(desc, interval=(a, b)), srows(u), exp_s)
                # every output edge is a piece of an input edge with the same parent, child and metadata
                src = {(p, c, md) for (_l, _r, p, c, md) in erows(t)}
                if any((p, c, md) not in src for (_l, _r, p, c, md) in erows(u)):
                    run.violation("%s keeps edge metadata on clipped edges" % op, dict(desc, interval=(a, b)), erows(u), erows(t))
                w = untouched(t, u, ["nodes", "individuals", "populations"])
                if w:
                    run.violation("%s leaves %s untouched" % (op, w), desc, "changed", "unchanged")
        # ---- delete_older
        times = sorted(set(float(x) for x in t.nodes.time))
        for cutoff in run.rng.sample(times + [times[-1] + 1, times[0] - 1, (times[0] + times[-1]) / 2], 2):
            u = t.copy()
            u.delete_older(cutoff)
            exp_e = [r for r in erows(t) if t.nodes.time[r[2]] <= cutoff]
            if erows(u) != exp_e:
                run.violation("delete_older keeps edges whose parent is not older than the cutoff, with metadata", dict(desc, cutoff=cutoff), erows(u), exp_e)
            keepm = [j for j, m in enumerate(t.mutations) if eff_time(t, m) < cutoff]
            mr = mrows(t)
            exp_m = []
            for j in keepm:
                r = mr[j]
                par = t.mutations[j].parent
                exp_m.append(r[:-1] + ((r[-1] if (par != -1 and par in keepm) else None),))
            if mrows(u) != exp_m:
                run.violation("delete_older keeps mutations younger than the cutoff and remaps parents", dict(desc, cutoff=cutoff), mrows(u), exp_m)
            exp_g = [r for r in grows(t) if r[5] < cutoff]
            if grows(u) != exp_g:
                run.violation("delete_older keeps migrations younger than the cutoff", dict(desc, cutoff=cutoff), grows(u), exp_g)
            w = untouched(t, u, ["nodes", "sites", "individuals", "populations"])
            if w:
                run.violation("delete_older leaves %s untouched" % w, desc, "changed", "unchanged")
        if run.violations:
            break
    run.sample(O.brief(t))
    run.finish()


if __name__ == "__main__":
    O.run_main(main)
