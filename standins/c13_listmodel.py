"""Bounded stand-in for C13: every table behaves like a Python list of rows under random operation sequences;
a TreeSequence is immutable (tables equal before/after public methods, returned arrays not writable)."""
import numpy as np
import tskit

from standins import oracle as O


def rnd_bytes(rng, maxlen=4):
    return bytes(rng.randrange(256) for _ in range(rng.randint(0, maxlen)))


def make_row(rng, name, nrows):
    f = rng.random
    ref = lambda: rng.randrange(-1, max(nrows, 1))
    if name == "nodes":
        return dict(flags=rng.choice([0, 1, 1 << 17]), time=rng.choice([0.0, 1.5, -2.0]), population=ref(), individual=ref(), metadata=rnd_bytes(rng))
    if name == "edges":
        return dict(left=rng.choice([0.0, 1.0]), right=rng.choice([2.0, 3.5]), parent=rng.randrange(5), child=rng.randrange(5), metadata=rnd_bytes(rng))
    if name == "sites":
        return dict(position=rng.choice([0.0, 0.5, 7.0]), ancestral_state=rng.choice(["", "A", "ACGT"]), metadata=rnd_bytes(rng))
    if name == "mutations":
        # parents may also be rows stored later in the table (legal for tables; keep_rows must remap them too)
        return dict(site=rng.randrange(4), node=rng.randrange(4), derived_state=rng.choice(["", "T", "GG"]),
                    parent=rng.randrange(-1, nrows + 3) if f() < 0.4 else ref(),
                    metadata=rnd_bytes(rng), time=rng.choice([tskit.UNKNOWN_TIME, 0.5, 2.0]))
    if name == "migrations":
        return dict(left=0.0, right=rng.choice([1.0, 2.0]), node=rng.randrange(4), source=rng.randrange(3), dest=rng.randrange(3),
                    time=rng.choice([0.1, 0.2]), metadata=rnd_bytes(rng))
    if name == "individuals":
        return dict(flags=rng.randrange(4), location=[float(rng.randrange(3)) for _ in range(rng.randint(0, 2))],
                    parents=[ref() for _ in range(rng.randint(0, 3))], metadata=rnd_bytes(rng, 2))
    if name == "populations":
        return dict(metadata=rnd_bytes(rng))
    if name == "provenances":
        return dict(timestamp=rng.choice(["", "2020", "2021-01-01"]), record=rng.choice(["", "{}", "{\"a\": 1}"]))


def norm(row):
    out = []
    for k in sorted(row):
        v = row[k]
        if isinstance(v, np.ndarray):
            v = v.tolist()
        if isinstance(v, (list, tuple)):
            v = tuple(float(x) if isinstance(x, float) else int(x) for x in v)
        if isinstance(v, float):
            v = "unknown" if tskit.is_unknown_time(v) else repr(float(v))
        if isinstance(v, (np.integer,)):
            v = int(v)
        if isinstance(v, str):
            v = v
        out.append((k, v))
    return tuple(out)


def table_rows(table):
    out = []
    for r in table:
        d = {k: getattr(r, k) for k in r.__dataclass_fields__} if hasattr(r, "__dataclass_fields__") else r.asdict()
        out.append(norm(d))
    return out


def main():
    run = O.Run("c13_listmodel")
    N = run.budget(60, 600)
    run.scope = ("%d random operation sequences (length <= 14) per table type over {append, row assignment, truncate, extend with "
                 "row subset, keep_rows, clear, copy, slice read, replace via set_columns round trip} against a Python list "
                 "model, all 8 tables; TreeSequence immutability probes" % N)
    names = ["nodes", "edges", "sites", "mutations", "migrations", "individuals", "populations", "provenances"]
    for k in range(N):
        for name in names:
            tc = tskit.TableCollection(10.0)
            tab = getattr(tc, name)
            model = []
            hist = []
            for step in range(run.rng.randint(3, 14)):
                op = run.rng.choice(["append", "append", "append", "setitem", "truncate", "extend", "keep_rows", "clear", "copy", "setcols"])
                try:
                    if op == "append":
                        row = make_row(run.rng, name, len(model))
                        rid = tab.add_row(**row)
                        if rid != len(model):
                            run.violation("add_row returns the new row's index", {"table": name, "history": hist}, rid, len(model))
                        model.append(norm(row))
                        hist.append(("append", str(row)))
                    elif op == "setitem" and model:
                        j = run.rng.randrange(len(model))
                        row = make_row(run.rng, name, len(model))
                        if name in ("individuals",) and run.rng.random() < 0.6:
                            # same location/metadata length, different number of parents (in-place vs rewrite paths)
                            cur = dict(model[j])
                            row["location"] = [float(x) + 1 for x in cur["location"]]
                            row["metadata"] = bytes(len(cur["metadata"]))
                        tab[j] = tab[j].replace(**row)
                        model[j] = norm(row)
                        hist.append(("setitem", j, str(row)))
                    elif op == "truncate" and model:
                        n = run.rng.randint(0, len(model))
                        tab.truncate(n)
                        del model[n:]
                        hist.append(("truncate", n))
                    elif op == "extend" and model and hasattr(tab, "extend"):
                        other = tab.copy()
                        idx = [run.rng.randrange(len(model)) for _ in range(run.rng.randint(0, 3))]
                        tab.extend(other, row_indexes=idx)
                        model.extend(model[i] for i in idx)
                        hist.append(("extend", idx))
                    elif op == "keep_rows" and model:
                        keep = [run.rng.random() < 0.6 for _ in model]
                        if name == "mutations":
                            # a kept row must not reference a dropped parent
                            ok = all(dict(r)["parent"] < len(model) for r in model)
                            if not ok:
                                continue
                            changed = True
                            while changed:          # references may point forwards: drop until stable
                                changed = False
                                for j, r in enumerate(model):
                                    par = dict(r)["parent"]
                                    if keep[j] and par != -1 and not keep[par]:
                                        keep[j] = False
                                        changed = True
                        if name == "individuals":
                            ok = all(all(p < len(model) for p in dict(r)["parents"]) for r in model)
                            if not ok:
                                continue
                            for j, r in enumerate(model):
                                if keep[j] and any(p != -1 and not keep[p] for p in dict(r)["parents"]):
                                    keep[j] = False
                            # dropping may cascade; recompute until stable
                            changed = True
                            while changed:
                                changed = False
                                for j, r in enumerate(model):
                                    if keep[j] and any(p != -1 and not keep[p] for p in dict(r)["parents"]):
                                        keep[j] = False
                                        changed = True
                        idmap = tab.keep_rows(np.array(keep, dtype=bool))
                        new = []
                        newid = {}
                        for j, r in enumerate(model):
                            if keep[j]:
                                newid[j] = len(new)
                                new.append(r)
                        exp_map = [newid.get(j, -1) for j in range(len(model))]
                        if list(map(int, idmap)) != exp_map:
                            run.violation("keep_rows returns the id map", {"table": name, "history": hist, "keep": keep}, list(map(int, idmap)), exp_map)
                        if name == "mutations":
                            new = [tuple((k_, (newid.get(v, -1) if (k_ == "parent" and v != -1) else v)) for k_, v in r) for r in new]
                        if name == "individuals":
                            new = [tuple((k_, (tuple(newid.get(p, -1) if p != -1 else -1 for p in v) if k_ == "parents" else v)) for k_, v in r) for r in new]
                        model = new
                        hist.append(("keep_rows", keep))
                    elif op == "clear":
                        tab.clear()
                        model = []
                        hist.append(("clear",))
                    elif op == "copy":
                        c2 = tab.copy()
                        if table_rows(c2) != model:
                            run.violation("copy() has the same rows", {"table": name, "history": hist}, table_rows(c2), model)
                    elif op == "setcols":
                        kw = {c: getattr(tab, c) for c in tab.column_names}
                        tab.set_columns(**kw)
                        hist.append(("set_columns(own columns)",))
                except Exception as e:
                    run.violation("table operation succeeds", {"table": name, "history": hist, "op": op}, "%s: %s" % (type(e).__name__, e), "ok")
                    break
                run.case()
                got = table_rows(tab)
                if got != model:
                    bad = [(j, a, b) for j, (a, b) in enumerate(zip(got, model)) if a != b][:2] or [("len", len(got), len(model))]
                    run.violation("the table equals the list-of-rows model after every operation", {"table": name, "history": hist[-6:]},
                                  bad, "identical rows")
                    break
                if len(tab) != len(model) or tab.num_rows != len(model):
                    run.violation("len(table)", {"table": name}, len(tab), len(model))
                if model:
                    j = run.rng.randrange(len(model))
                    if table_rows(tab[j:j + 2]) != model[j:j + 2]:
                        run.violation("slice read", {"table": name, "history": hist[-4:]}, table_rows(tab[j:j + 2]), model[j:j + 2])
                    for bad_i in (len(model), -len(model) - 1):
                        try:
                            tab[bad_i]
                            run.violation("row index out of range raises IndexError", {"table": name, "index": bad_i}, "returned", "IndexError")
                        except IndexError:
                            pass
            if run.violations:
                break
        if run.violations:
            break
    # keep_rows on the two self-referencing tables with references pointing anywhere in the table (backwards and
    # forwards): kept rows in order, every reference remapped through the id map, dangling references rejected
    for k in range(run.budget(400, 4000)):
        if run.violations:
            break
        n = run.rng.randint(1, 7)
        tc = tskit.TableCollection(10.0)
        which = run.rng.choice(["mutations", "individuals"])
        refs = []
        for j in range(n):
            if which == "mutations":
                par = run.rng.randrange(-1, n)
                refs.append([par])
                tc.mutations.add_row(site=j % 3, node=j, derived_state="ACGT"[j % 4] * (j % 3), parent=par, metadata=b"m%d" % j)
            else:
                ps = [run.rng.randrange(-1, n) for _ in range(run.rng.randint(0, 3))]
                refs.append(ps)
                tc.individuals.add_row(flags=j, location=[float(j)] * (j % 3), parents=ps, metadata=b"i%d" % j)
        tab = getattr(tc, which)
        keep = [run.rng.random() < 0.65 for _ in range(n)]
        dangling = any(keep[j] and any(p != -1 and not keep[p] for p in refs[j]) for j in range(n))
        before = table_rows(tab)
        desc = {"table": which, "references": refs, "keep": keep}
        run.case()
        try:
            idmap = tab.keep_rows(np.array(keep, dtype=bool))
        except tskit.LibraryError as e:
            if not dangling:
                run.violation("keep_rows accepts a mask without dangling references", desc, str(e), "no exception")
            elif table_rows(tab) != before:
                run.violation("a rejected keep_rows leaves the table unchanged", desc, table_rows(tab), before)
            continue
        if dangling:
            run.violation("keep_rows rejects a kept row that references a dropped row", desc, "accepted", "LibraryError")
            continue
        newid, exp = {}, []
        for j in range(n):
            if keep[j]:
                newid[j] = len(newid)
        key = "parent" if which == "mutations" else "parents"
        for j in range(n):
            if keep[j]:
                r = dict(before[j])
                r[key] = (newid[r[key]] if r[key] != -1 else -1) if which == "mutations" else \
                    tuple(newid[p] if p != -1 else -1 for p in r[key])
                exp.append(tuple(sorted(r.items())))
        got = [tuple(sorted(dict(r).items())) for r in table_rows(tab)]
        if got != exp or list(map(int, idmap)) != [newid.get(j, -1) for j in range(n)]:
            run.violation("keep_rows keeps the chosen rows in order and remaps every self-reference (backward or forward)",
                          desc, {"rows": got, "id_map": list(map(int, idmap))}, {"rows": exp})
    # immutability of tree sequences
    for k in range(run.budget(15, 100)):
        t = O.random_tables(run.rng, sites=True, individuals=True, populations=True)
        t.edges.drop_metadata()
        ts = t.tree_sequence()
        before = ts.dump_tables()
        for nm in ("nodes_time", "nodes_flags", "edges_left", "edges_right", "edges_parent", "edges_child", "sites_position",
                   "mutations_node", "mutations_site", "mutations_time", "samples", "breakpoints"):
            try:
                a = getattr(ts, nm)
                a = a() if callable(a) else a
                a = np.asarray(a) if not isinstance(a, np.ndarray) else a
                if a.size:
                    try:
                        a[0] = a[0] + 1
                    except (ValueError, TypeError):
                        pass
            except Exception:
                pass
        run.case()
        list(ts.trees()); list(ts.variants()); ts.simplify(); ts.first(); ts.genotype_matrix() if ts.num_sites else None
        try:
            ts.tables.nodes.add_row(time=1)       # must not reach the tree sequence (a copy, or refused)
        except Exception:
            pass
        if not O.same_tables(before, ts.dump_tables()):
            run.violation("a TreeSequence never changes", {"case": k, "tables": O.brief(t)}, "tables changed", "unchanged")
            break
    run.sample({"note": "see scope"})
    run.finish()


if __name__ == "__main__":
    O.run_main(main)
