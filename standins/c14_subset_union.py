"""Bounded stand-in for C14: subset retains exactly the referenced data; union re-joins what subset split."""
import numpy as np
import tskit

from standins import oracle as O


def label_tables(t):
    """give every row a unique metadata label so that content can be compared across renumbering"""
    u = t.copy()
    for name in ("nodes", "individuals", "populations", "sites", "mutations"):
        tab = getattr(u, name)
        rows = list(tab)
        tab.clear()
        for k, r in enumerate(rows):
            tab.append(r.replace(metadata=("%s%d" % (name[0], k)).encode()))
    return u


def content(t):
    N = list(t.nodes)
    I = list(t.individuals)
    P = list(t.populations)
    S = list(t.sites)
    M = list(t.mutations)
    ind = lambda i: None if i == -1 else I[i].metadata
    pop = lambda p: None if p == -1 else P[p].metadata
    nodes = {n.metadata: (n.flags, n.time, pop(n.population), ind(n.individual)) for n in N}
    inds = {i.metadata: (i.flags, tuple(i.location), tuple(ind(p) for p in i.parents)) for i in I}
    pops = {p.metadata for p in P}
    edges = sorted((e.left, e.right, N[e.parent].metadata, N[e.child].metadata) for e in t.edges)
    sites = {s.metadata: (s.position, s.ancestral_state) for s in S}
    muts = {m.metadata: (S[m.site].metadata, N[m.node].metadata, m.derived_state,
                         None if m.parent == -1 else M[m.parent].metadata) for m in M}
    return dict(nodes=nodes, individuals=inds, populations=pops, edges=edges, sites=sites, mutations=muts)


def expected_subset(t, nodes, reorder_populations, remove_unreferenced):
    c = content(t)
    N = list(t.nodes)
    keepn = [N[u].metadata for u in nodes]
    ks = set(keepn)
    out = dict(nodes={k: c["nodes"][k] for k in keepn})
    out["edges"] = sorted(e for e in c["edges"] if e[2] in ks and e[3] in ks)
    muts = {k: v for k, v in c["mutations"].items() if v[1] in ks}
    muts = {k: (v[0], v[1], v[2], v[3] if v[3] in muts else None) for k, v in muts.items()}
    out["mutations"] = muts
    if remove_unreferenced:
        used_sites = {v[0] for v in muts.values()}
        out["sites"] = {k: v for k, v in c["sites"].items() if k in used_sites}
        used_ind = {v[3] for v in out["nodes"].values() if v[3] is not None}
        out["individuals"] = {k: (v[0], v[1], tuple(p for p in v[2] if p is None or p in used_ind))
                              for k, v in c["individuals"].items() if k in used_ind}
        out["populations"] = {v[2] for v in out["nodes"].values() if v[2] is not None}
        if not reorder_populations:
            out["populations"] = c["populations"]     # documented: the population table is not altered in any way
    else:
        out["sites"] = c["sites"]
        out["individuals"] = c["individuals"]
        out["populations"] = c["populations"]
    return out, keepn


def main():
    run = O.Run("c14_subset_union")
    N = run.budget(400, 4000)
    run.scope = ("%d seeded small valid collections with individuals (parents), populations, stacked mutations x node lists "
                 "in any order x reorder_populations x remove_unreferenced; two-part covers re-joined by union with "
                 "non-identity node mappings" % N)
    for k in range(N):
        t0 = O.random_tables(run.rng, sites=True, individuals=True, populations=True, max_breaks=2)
        t0.edges.drop_metadata()
        t = label_tables(t0)
        n = t.nodes.num_rows
        desc = {"case": "seed=%d case=%d" % (run.seed, k), "tables": O.brief(t)}
        run.case()
        nodes = run.rng.sample(range(n), run.rng.randint(1, n))
        ro, ru = run.rng.random() < 0.5, run.rng.random() < 0.5
        u = t.copy()
        try:
            u.subset(nodes, reorder_populations=ro, remove_unreferenced=ru, record_provenance=False)
        except tskit.LibraryError as e:
            run.violation("subset on valid input does not fail", dict(desc, nodes=nodes), str(e), "ok")
            break
        exp, keepn = expected_subset(t, nodes, ro, ru)
        got = content(u)
        for key in ("nodes", "edges", "sites", "mutations", "individuals", "populations"):
            if got[key] != exp[key]:
                run.violation("subset keeps exactly the listed nodes and the %s they reference" % key,
                              dict(desc, nodes=nodes, reorder_populations=ro, remove_unreferenced=ru), got[key], exp[key])
                break
        if [r.metadata for r in u.nodes] != keepn:
            run.violation("subset lists the nodes in the order given", dict(desc, nodes=nodes), [r.metadata for r in u.nodes], keepn)
        # ---- split in two overlapping parts and re-join with union
        if t.migrations.num_rows == 0 and n >= 2:
            order = list(range(n))
            shared = sorted(run.rng.sample(order, run.rng.randint(0, n - 1)), key=lambda x: -t.nodes.time[x])
            rest = [x for x in order if x not in shared]
            a_only = [x for x in rest if run.rng.random() < 0.5]
            b_only = [x for x in rest if x not in a_only]
            A = t.copy()
            a_nodes = shared + a_only
            run.rng.shuffle(a_nodes)
            if not a_nodes:
                continue
            A.subset(a_nodes, record_provenance=False)
            B = t.copy()
            b_nodes = b_only + shared
            run.rng.shuffle(b_nodes)
            if not b_nodes:
                continue
            B.subset(b_nodes, record_provenance=False)
            # mapping from B's nodes to A's
            a_index = {lab: i for i, lab in enumerate(r.metadata for r in A.nodes)}
            mapping = [a_index.get(r.metadata, -1) for r in B.nodes]
            # union requires the shared portion to be equal: only join when every edge among shared nodes is shared in both
            U = A.copy()
            try:
                U.union(B, mapping, check_shared_equality=True, record_provenance=False)
            except tskit.LibraryError as e:
                continue
            # a shared node whose metadata differs between the parts: union must refuse (check_shared_equality)
            sh_idx = [i_ for i_, m_ in enumerate(mapping) if m_ != -1]
            if sh_idx:
                B2 = B.copy()
                q = run.rng.choice(sh_idx)
                B2.nodes[q] = B2.nodes[q].replace(metadata=b"DIFFERENT")
                U2 = A.copy()
                try:
                    U2.union(B2, mapping, check_shared_equality=True, record_provenance=False)
                    run.violation("union refuses shared portions that differ (here: metadata of a shared node)",
                                  dict(desc, a=a_nodes, b=b_nodes, mapping=mapping, changed=q), "accepted", "LibraryError")
                except tskit.LibraryError:
                    pass
            got = content(U)
            full = content(t)
            # what the two parts contain together
            AB = set(a_nodes) | set(b_nodes)
            labs = {t.nodes[x].metadata for x in AB}
            for lab in labs:
                if got["nodes"].get(lab) != full["nodes"][lab]:
                    run.violation("union: every node of either part present with the same individual and population",
                                  dict(desc, a=a_nodes, b=b_nodes, mapping=mapping), {lab: got["nodes"].get(lab)}, {lab: full["nodes"][lab]})
                    break
            inds_needed = {v[3] for lab, v in full["nodes"].items() if lab in labs and v[3] is not None}
            for il in inds_needed:
                gi, fi = got["individuals"].get(il), full["individuals"][il]
                if gi is None or gi[0] != fi[0] or gi[1] != fi[1]:
                    run.violation("union keeps the individuals of added nodes", dict(desc, a=a_nodes, b=b_nodes), {il: gi}, {il: fi})
                    break
                # parents that are themselves needed must be identified correctly
                for p_got, p_full in zip(gi[2], fi[2]):
                    if p_full in inds_needed and p_got != p_full:
                        run.violation("union remaps individual parents through the individual map",
                                      dict(desc, a=a_nodes, b=b_nodes, mapping=mapping), {il: gi[2]}, {il: fi[2]})
                        break
            exp_edges = sorted(set(e for e in full["edges"] if (e[2] in {t.nodes[x].metadata for x in a_nodes} and e[3] in {t.nodes[x].metadata for x in a_nodes})
                                   or (e[2] in {t.nodes[x].metadata for x in b_nodes} and e[3] in {t.nodes[x].metadata for x in b_nodes})))
            sh = {t.nodes[x].metadata for x in shared}
            got_edges = sorted(set(got["edges"]))
            if got_edges != exp_edges:
                run.violation("union adds exactly the edges that involve an added node", dict(desc, a=a_nodes, b=b_nodes, mapping=mapping),
                              got_edges, exp_edges)
        if run.violations:
            break
    run.sample(O.brief(t))
    run.finish()


if __name__ == "__main__":
    O.run_main(main)
