"""Bounded stand-in for C15: tree ranks are a bijection and topology counts match enumeration (small n)."""
import itertools
import math

import tskit
from tskit import combinatorics as comb

from standins import oracle as O


def canon(tree, u):
    """canonical nested-tuple form of the leaf-labelled topology below u"""
    ch = tree.children(u)
    if not ch:
        return u
    return tuple(sorted((canon(tree, c) for c in ch), key=repr))


def all_topologies(leaves):
    """every rooted leaf-labelled tree (no unary nodes) on the given leaves, as canonical nested tuples"""
    leaves = tuple(leaves)
    if len(leaves) == 1:
        return {leaves[0]}
    out = set()
    first, rest = leaves[0], leaves[1:]
    # set partitions of the leaves into >= 2 blocks; each block gets any topology
    for part in partitions(list(leaves)):
        if len(part) < 2:
            continue
        opts = [sorted(all_topologies(b), key=repr) for b in part]
        for combo in itertools.product(*opts):
            out.add(tuple(sorted(combo, key=repr)))
    return out


def partitions(xs):
    if not xs:
        yield []
        return
    x, rest = xs[0], xs[1:]
    for p in partitions(rest):
        yield [[x]] + p
        for i in range(len(p)):
            yield p[:i] + [[x] + p[i]] + p[i + 1:]


def shape(c):
    if not isinstance(c, tuple):
        return ()
    return tuple(sorted(shape(x) for x in c))


def main():
    run = O.Run("c15_ranks")
    nmax = run.budget(6, 7)
    run.scope = ("all leaf-labelled topologies for n <= %d leaves (exhaustive): unrank/rank round trip, all_trees complete, "
                 "duplicate-free and in rank order, ranks invariant under node relabelling; 9-leaf three-equal-subtree "
                 "shapes sampled; round trips of large trees (x equal star subtrees of k leaves, 36-48 leaves; random binary trees "
                 "on 14 leaves) (count_topologies is not covered)" % nmax)
    for n in range(1, nmax + 1):
        expected = all_topologies(range(n))
        seen = {}
        ranks = []
        prev = None
        for tree in tskit.all_trees(n):
            run.case(("tree", n, len(ranks)))
            c = canon(tree, tree.root)
            r = tree.rank()
            ranks.append(tuple(r))
            if c in seen:
                run.violation("all_trees(n) has no duplicates", {"n": n}, repr(c), "distinct")
            seen[c] = tuple(r)
            if prev is not None and not (prev < tuple(r)):
                run.violation("all_trees(n) is in rank order", {"n": n}, (prev, tuple(r)), "increasing")
            prev = tuple(r)
            back = tskit.Tree.unrank(n, r)
            if canon(back, back.root) != c:
                run.violation("unrank(n, rank(t)) == t", {"n": n, "rank": tuple(r)}, repr(canon(back, back.root)), repr(c))
            if tuple(back.rank()) != tuple(r):
                run.violation("rank(unrank(n, r)) == r", {"n": n, "rank": tuple(r)}, tuple(back.rank()), tuple(r))
        if set(seen) != expected:
            run.violation("all_trees(n) enumerates every leaf-labelled topology", {"n": n}, len(seen), len(expected))
        if len(set(ranks)) != len(ranks):
            run.violation("ranks are distinct", {"n": n}, len(set(ranks)), len(ranks))
        # shape ranks: contiguous from 0, label ranks contiguous within a shape
        by_shape = {}
        for (s, l) in ranks:
            by_shape.setdefault(s, []).append(l)
        if sorted(by_shape) != list(range(len(by_shape))):
            run.violation("shape ranks are 0..k-1", {"n": n}, sorted(by_shape), "contiguous")
        for s, ls in by_shape.items():
            if sorted(ls) != list(range(len(ls))):
                run.violation("label ranks of a shape are 0..m-1", {"n": n, "shape": s}, sorted(ls)[:10], "contiguous")
        if len({shape(c) for c in seen}) != len(by_shape):
            run.violation("number of shapes", {"n": n}, len(by_shape), len({shape(c) for c in seen}))
        if run.violations:
            break
    # out-of-range ranks raise ValueError
    for n, r in ((3, (0, 5)), (3, (2, 0)), (4, (-1, 0)), (1, (0, 1))):
        try:
            tskit.Tree.unrank(n, r)
            run.violation("out-of-range rank raises ValueError", {"n": n, "rank": r}, "returned a tree", "ValueError")
        except ValueError:
            pass
        except Exception as e:
            run.violation("out-of-range rank raises ValueError", {"n": n, "rank": r}, type(e).__name__, "ValueError")
    # larger n, sampled: shapes with three or more equal non-trivial sibling subtrees
    rng = run.rng
    for n, groups in ((9, [[0, 1, 2], [3, 4, 5], [6, 7, 8]]), (8, [[0, 1, 2], [3, 4, 5], [6, 7]]), (12, [[0, 1, 2], [3, 4, 5], [6, 7, 8], [9, 10, 11]])):
        labellings = set()
        for _ in range(run.budget(150, 1500)):
            perm = list(range(n))
            rng.shuffle(perm)
            # ((a,(b,c)),(d,(e,f)),(g,(h,i))) with a random labelling, built from tables with shuffled node ids
            t = tskit.TableCollection(1.0)
            ids = {}
            for lab in range(n):
                ids[lab] = t.nodes.add_row(flags=1, time=0)
            tops = []
            nxt = 1.0
            for g in groups:
                g = [perm[x] for x in g]
                if len(g) == 3:
                    inner = t.nodes.add_row(time=nxt)
                    outer = t.nodes.add_row(time=nxt + 1)
                    t.edges.add_row(0, 1, inner, ids[g[1]])
                    t.edges.add_row(0, 1, inner, ids[g[2]])
                    t.edges.add_row(0, 1, outer, ids[g[0]])
                    t.edges.add_row(0, 1, outer, inner)
                else:
                    outer = t.nodes.add_row(time=nxt + 1)
                    for x in g:
                        t.edges.add_row(0, 1, outer, ids[x])
                tops.append(outer)
            root = t.nodes.add_row(time=10)
            for o in tops:
                t.edges.add_row(0, 1, root, o)
            t.sort()
            tree = t.tree_sequence().first()
            run.case()
            r = tree.rank()
            c = canon(tree, tree.root)
            labellings.add((c, tuple(r)))
            back = tskit.Tree.unrank(n, r)
            if canon(back, back.root) != c:
                run.violation("unrank(n, rank(t)) == t", {"n": n, "tree": repr(c), "rank": tuple(r)}, repr(canon(back, back.root)), repr(c))
                break
        byc = {}
        for c, r in labellings:
            byc.setdefault(r, set()).add(c)
        if any(len(v) > 1 for v in byc.values()):
            run.violation("distinct topologies have distinct ranks", {"n": n}, "collision", "injective")
        if run.violations:
            break
    # large trees: x equal sibling subtrees (stars of k leaves) under one root, random labelling - the number of label
    # assignments within the group exceeds 2^63 for the larger ones; also random binary trees on 14 leaves
    import sys
    sys.setrecursionlimit(10000)

    def build(n, clades):
        """tables of a tree given as nested tuples of leaf labels"""
        t = tskit.TableCollection(1.0)
        for _lab in range(n):
            t.nodes.add_row(flags=1, time=0)

        def add(c):
            if not isinstance(c, tuple):
                return c, 0.0
            kids = [add(x) for x in c]
            tm = max(h for _, h in kids) + 1.0
            u = t.nodes.add_row(time=tm)
            for v, _ in kids:
                t.edges.add_row(0, 1, u, v)
            return u, tm
        add(clades)
        t.sort()
        return t.tree_sequence().first()
    big = [(18, 2), (5, 7), (4, 10), (3, 16), (6, 6), (10, 3), (12, 3), (2, 20)]
    for (x, k_) in big:
        n = x * k_
        for rep in range(run.budget(3, 20)):
            perm = list(range(n))
            rng.shuffle(perm)
            clades = tuple(tuple(perm[a * k_ + b] for b in range(k_)) for a in range(x))
            tree = build(n, clades)
            c = canon(tree, tree.root)
            run.case(("big", x, k_))
            try:
                r = tree.rank()
                back = tskit.Tree.unrank(n, r)
                ok = canon(back, back.root) == c and tuple(back.rank()) == tuple(r)
                obs = repr(canon(back, back.root))[:300]
            except Exception as e:
                ok, obs = False, "%s: %s" % (type(e).__name__, e)
            if not ok:
                run.violation("unrank(n, rank(t)) == t for large trees with many equal sibling subtrees",
                              {"n": n, "equal_subtrees": x, "leaves_each": k_, "tree": repr(c)[:400]}, obs, repr(c)[:300])
                break
        if run.violations:
            break
    for rep in range(run.budget(10, 100)):
        n = 14
        items = list(range(n))
        rng.shuffle(items)
        while len(items) > 1:
            a = items.pop(rng.randrange(len(items)))
            b = items.pop(rng.randrange(len(items)))
            items.append((a, b))
        tree = build(n, items[0])
        c = canon(tree, tree.root)
        run.case(("bin14", rep))
        try:
            r = tree.rank()
            back = tskit.Tree.unrank(n, r)
            ok = canon(back, back.root) == c
            obs = repr(canon(back, back.root))[:300]
        except Exception as e:
            ok, obs = False, "%s: %s" % (type(e).__name__, e)
        if not ok:
            run.violation("unrank(n, rank(t)) == t for random binary trees on 14 leaves", {"tree": repr(c)[:400]}, obs, repr(c)[:300])
            break
    # random shape ranks for 10..13 leaves (first labelling): rank(unrank(r)) == r and distinct shapes
    for n in (10, 11, 12, 13):
        total = comb.num_shapes(n)
        seen = {}
        todo = range(total) if (run.tier == "thorough" and n <= 12) else \
            [rng.randrange(total) for _ in range(2500 if n == 12 else 150)]
        for r in todo:
            tr = tskit.Tree.unrank(n, (r, 0))
            run.case()
            got = tuple(tr.rank())
            if got != (r, 0):
                run.violation("rank(unrank(n, (r, 0))) == (r, 0)", {"n": n, "rank": r}, got, (r, 0))
                break
            sh = shape(canon(tr, tr.root))
            if sh in seen and seen[sh] != r:
                run.violation("distinct shape ranks give distinct shapes", {"n": n}, (seen[sh], r), "distinct")
                break
            seen[sh] = r
        if run.violations:
            break
    run.sample({"n_max": nmax})
    run.finish()


if __name__ == "__main__":
    O.run_main(main)
