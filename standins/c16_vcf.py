"""Bounded stand-in for C16: write_vcf output parsed back and compared with genotypes recomputed from the tables."""
import io

import numpy as np
import tskit

from standins import oracle as O


def main():
    run = O.Run("c16_vcf")
    N = run.budget(800, 6000)
    run.scope = ("%d seeded small tree sequences with individuals of mixed ploidy x individuals subset/order x site_mask "
                 "(bool array / list / int array) x sample_mask (array / callable) x isolated_as_missing x position transform "
                 "x allow_position_zero" % N)
    for k in range(N):
        t = O.random_tables(run.rng, sites=True, max_samples=4, max_internal=3, max_breaks=2, internal_samples=False)
        t.individuals.clear()
        # single-letter alleles only (VCF)
        ok = all(len(s.ancestral_state) == 1 for s in t.sites) and all(len(m.derived_state) == 1 for m in t.mutations)
        if not ok or t.sites.num_rows == 0:
            continue
        samples = O.samples_of(t)
        # group sample nodes into individuals of ploidy 1..3
        rest = list(samples)
        run.rng.shuffle(rest)
        nodes = t.nodes.copy()
        indiv = np.full(t.nodes.num_rows, -1, dtype=np.int32)
        groups = []
        while rest:
            p = min(len(rest), run.rng.randint(1, 3))
            g, rest = rest[:p], rest[p:]
            i = t.individuals.add_row()
            for u in g:
                indiv[u] = i
            groups.append(sorted(g))
        t.nodes.individual = indiv
        ts = t.tree_sequence()
        ninds = len(groups)
        inds = None if run.rng.random() < 0.4 else run.rng.sample(range(ninds), run.rng.randint(1, ninds))
        order = list(range(ninds)) if inds is None else inds
        cols = [u for i in order for u in groups[i]]
        ploidies = [len(groups[i]) for i in order]
        iam = run.rng.random() < 0.6
        ns = ts.num_sites
        mask = None
        mkind = run.rng.choice(["none", "bool", "list", "int"])
        if mkind != "none":
            mb = [run.rng.random() < 0.3 for _ in range(ns)]
            mask = {"bool": np.array(mb, dtype=bool), "list": list(mb), "int": np.array(mb, dtype=np.uint8)}[mkind]
        else:
            mb = [False] * ns
        smask = None
        sm = np.zeros((ns, len(cols)), dtype=bool)
        skind = run.rng.choice(["none", "array", "callable"])
        if skind != "none":
            base = np.array([run.rng.random() < 0.25 for _ in cols], dtype=bool)
            if skind == "array":
                smask = base
                sm[:] = base
            else:
                flip = {}
                def smask(variant, base=base, flip=flip):
                    m_ = base.copy()
                    if variant.site.id % 2 == 1 and len(m_):
                        m_[0] = not m_[0]
                    return m_
                for sid in range(ns):
                    r = base.copy()
                    if sid % 2 == 1 and len(r):
                        r[0] = not r[0]
                    sm[sid] = r
        # the position-zero check must range over exactly the unmasked sites
        legacy = run.rng.random() < 0.35
        if legacy:
            # positions at k + 0.5 and colliding positions exercise the legacy rule: round half to even, then bump
            tb = ts.dump_tables()
            newpos = sorted(set([float(run.rng.choice([0.5, 1.5, 2.5, 2.6, 3.5, 4.4, 4.5, 6.5])) for _ in range(tb.sites.num_rows)]))
            if len(newpos) == tb.sites.num_rows and newpos[-1] < tb.sequence_length:
                tb.sites.position = np.array(newpos)
                try:
                    ts = tb.tree_sequence()
                    t = tb
                except tskit.LibraryError:
                    legacy = False
            else:
                legacy = False
        def legacy_pos(ps):
            out = []
            last = 0
            for x in ps:
                v = max(int(round(x)), last + 1)      # round half to even, then strictly increasing from 1
                out.append(v)
                last = v
            return out
        tpos = legacy_pos([float(x) for x in ts.tables.sites.position]) if legacy else [int(round(float(x))) for x in ts.tables.sites.position]
        apz = any(tpos[i] == 0 and not mb[i] for i in range(ns))
        desc = {"case": "seed=%d case=%d" % (run.seed, k), "tables": O.brief(t), "groups": groups, "individuals": inds,
                "site_mask": None if mask is None else [bool(x) for x in mb], "site_mask_type": mkind, "sample_mask": skind,
                "isolated_as_missing": iam}
        run.case()
        out = io.StringIO()
        try:
            ts.write_vcf(out, individuals=inds, site_mask=mask, sample_mask=smask, isolated_as_missing=iam,
                         allow_position_zero=apz, **({"position_transform": "legacy"} if legacy else {}))
        except Exception as e:
            run.violation("write_vcf accepts every documented mask representation", desc, "%s: %s" % (type(e).__name__, e), "no exception")
            break
        lines = [l for l in out.getvalue().splitlines() if not l.startswith("##")]
        header, body = lines[0], lines[1:]
        names = header.split("\t")[9:]
        exp_names = ["tsk_%d" % i for i in range(len(order))]      # documented default: numbered by output column
        if names != exp_names:
            run.violation("one VCF sample column per listed individual, in order", desc, names, exp_names)
            break
        exp_sites = [sid for sid in range(ns) if not mb[sid]]
        if len(body) != len(exp_sites):
            run.violation("masked sites produce no record, the others one each", desc, len(body), len(exp_sites))
            break
        last_pos = 0
        for line, sid in zip(body, exp_sites):
            f = line.split("\t")
            site = ts.site(sid)
            alle = O.site_genotypes(t, sid, cols, isolated_as_missing=iam)
            # allele list of the record
            ref, alt = f[3], ([] if f[4] == "." else f[4].split(","))
            alleles = [ref] + alt
            derived = {m.derived_state for m in site.mutations}
            exp_alt = derived - {site.ancestral_state}
            if "" not in derived and site.ancestral_state != "":
                if (not exp_alt and f[4] != ".") or (exp_alt and set(alt) != exp_alt) or f[4] == "":
                    run.violation("ALT lists exactly the derived alleles of the site, '.' when there are none",
                                  dict(desc, site=sid), {"record": line}, sorted(exp_alt) or ".")
            if ref != site.ancestral_state:
                run.violation("REF is the ancestral state", dict(desc, site=sid), ref, site.ancestral_state)
            pos = int(f[1])
            if pos != tpos[sid]:
                run.violation("POS is the transformed site position (default: rounded; legacy: rounded half-even then made increasing)",
                              dict(desc, site=sid, legacy=legacy, position=float(site.position)), pos, tpos[sid])
            last_pos = pos
            if f[2] != str(sid) or f[6] != "PASS" or f[8] != "GT":
                run.violation("fixed fields ID/FILTER/FORMAT", dict(desc, site=sid), f[:9], [str(sid), "PASS", "GT"])
            gts = f[9:]
            q = 0
            for col, pl in zip(gts, ploidies):
                calls = col.split("|")
                if len(calls) != pl:
                    run.violation("ploidy of each individual = number of its nodes", dict(desc, site=sid), col, pl)
                    break
                for c in calls:
                    exp = alle[q]
                    if sm[sid][q]:
                        exp = None
                    got = None if c == "." else (alleles[int(c)] if c.isdigit() and int(c) < len(alleles) else "?" + c)
                    if got != exp:
                        run.violation("GT spells the genotype of each node; '.' exactly where missing or masked",
                                      dict(desc, site=sid, node=cols[q]), {"record": line, "call": c}, exp)
                    q += 1
        if run.violations:
            break
    run.sample({"note": "see scope"})
    run.finish()


if __name__ == "__main__":
    O.run_main(main)
