"""Bounded stand-in for C17: dump_text -> load_text gives back the same tree sequence."""
import io

import numpy as np
import tskit

from standins import oracle as O


def main():
    run = O.Run("c17_text")
    N = run.budget(300, 3000)
    run.scope = ("%d seeded small tree sequences with binary metadata on every table, individuals (location, parents), "
                 "populations, migrations, empty alleles, mixed known/unknown mutation times across sites" % N)
    for k in range(N):
        t = O.random_tables(run.rng, sites=True, individuals=(k % 2 == 0), populations=True, migrations=(k % 3 == 0), max_breaks=2)
        # known times on alternating sites (valid: node time <= t, children not older than parents)
        M = t.mutations
        if M.num_rows:
            times = np.array(M.time)
            for j, m in enumerate(M):
                if m.site % 2 == 1:
                    times[j] = t.nodes.time[m.node]        # the youngest valid known time
            M.time = times
            # children must not be older than parents: node time of a child <= node time of parent: fine
        try:
            ts = t.tree_sequence()
        except tskit.LibraryError:
            continue
        desc = {"case": "seed=%d case=%d" % (run.seed, k), "tables": O.brief(t)}
        run.case()
        bufs = {n: io.StringIO() for n in ("nodes", "edges", "sites", "mutations", "individuals", "populations", "migrations")}
        ts.dump_text(nodes=bufs["nodes"], edges=bufs["edges"], sites=bufs["sites"], mutations=bufs["mutations"],
                     individuals=bufs["individuals"], populations=bufs["populations"], migrations=bufs["migrations"],
                     precision=9, base64_metadata=True)
        for b in bufs.values():
            b.seek(0)
        try:
            back = tskit.load_text(nodes=bufs["nodes"], edges=bufs["edges"], sites=bufs["sites"], mutations=bufs["mutations"],
                                   individuals=bufs["individuals"], populations=bufs["populations"],
                                   migrations=bufs["migrations"], sequence_length=ts.sequence_length, strict=True,
                                   base64_metadata=True)
        except Exception as e:
            run.violation("load_text reads what dump_text wrote", desc, "%s: %s" % (type(e).__name__, e), "loads")
            break
        a, b = ts.dump_tables(), back.dump_tables()
        for name in ("nodes", "edges", "sites", "mutations", "individuals", "populations", "migrations"):
            ta, tb = getattr(a, name), getattr(b, name)
            ra, rb = [repr(r) for r in ta], [repr(r) for r in tb]
            if name == "populations" and len(rb) >= len(ra):
                rb = rb[:len(ra)] if all("metadata=b''" in x for x in rb[len(ra):]) else rb
            if name == "migrations":
                ra, rb = sorted(ra), sorted(rb)      # load_text sorts; rows with equal time may swap
            if ra != rb:
                bad = [(x, y) for x, y in zip(ra, rb) if x != y][:2] or [(len(ra), len(rb))]
                run.violation("text round trip reproduces the %s table (all columns, incl. metadata and unknown times)" % name,
                              desc, bad, "identical rows")
                break
        if run.violations:
            break
    run.sample({"note": "see scope"})
    run.finish()


if __name__ == "__main__":
    O.run_main(main)
