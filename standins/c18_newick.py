"""Bounded stand-in for C18: as_newick parsed back gives the topology, labels and branch lengths; nexus/fasta."""
import io
import re

import numpy as np
import tskit

from standins import oracle as O


def parse_newick(s):
    """minimal Newick reader: returns nested (label, length, [children])"""
    assert s.endswith(";"), s
    s = s[:-1]
    pos = 0

    def node():
        nonlocal pos
        children = []
        if pos < len(s) and s[pos] == "(":
            pos += 1
            while True:
                children.append(node())
                if s[pos] == ",":
                    pos += 1
                    continue
                assert s[pos] == ")", (s, pos)
                pos += 1
                break
        m = re.match(r"[^:,()]*", s[pos:])
        label = m.group(0)
        pos += len(label)
        length = None
        if pos < len(s) and s[pos] == ":":
            m = re.match(r":([-+0-9.eE]+)", s[pos:])
            length = m.group(1)
            pos += len(m.group(0))
        return (label, length, children)
    n = node()
    assert pos == len(s), (s, pos)
    return n


def expected(tree, pm_children, times, u, labels, precision, with_lengths, is_root=True, parent=None):
    kids = [expected(tree, pm_children, times, c, labels, precision, with_lengths, False, u) for c in tree.children(u)]
    lab = labels.get(u, "")
    length = None
    if with_lengths and not is_root:
        length = "%.*f" % (precision, times[parent] - times[u])
    return (lab, length, kids)


def canon(n):
    return (n[0], n[1], sorted((canon(c) for c in n[2]), key=repr))


def main():
    run = O.Run("c18_newick")
    N = run.budget(300, 3000)
    run.scope = ("%d seeded small tree sequences (polytomies, unary and internal-sample nodes, negative and fractional times) "
                 "x every root x precision x include_branch_lengths x default/custom labels; write_nexus / write_fasta / "
                 "wrap widths incl. divisors of the length" % N)
    for k in range(N):
        t = O.random_tables(run.rng, sites=True, max_breaks=1, internal_samples=True)
        if k % 5 == 0 and t.nodes.num_rows:
            # negative / large magnitude times (shift every node)
            t.nodes.time = t.nodes.time - run.rng.choice([5.0, 1e6, 12345.678])
        if k % 7 == 3 and t.nodes.num_rows:
            # oldest node at time 0, every other node at a large negative time (long branches, tiny root time)
            t.nodes.time = (t.nodes.time - t.nodes.time.max()) * 1e9
        ts = t.tree_sequence()
        times = t.nodes.time
        n = t.nodes.num_rows
        samples = set(O.samples_of(t))
        for tree in ts.trees():
            pm = O.parent_map_cols(t, tree.interval[0])
            ch = O.children_of(pm, n)
            roots = [u for u in range(n) if ch[u] or u in samples]
            for root in run.rng.sample(roots, min(len(roots), 3)):
                for ibl in (True, False):
                    prec = run.rng.choice([None, 0, 3, 10])
                    custom = run.rng.random() < 0.3
                    labels = {u: "L%d" % u for u in range(n) if run.rng.random() < 0.6} if custom else None
                    desc = {"case": "seed=%d case=%d" % (run.seed, k), "tables": O.brief(t), "root": root, "precision": prec,
                            "include_branch_lengths": ibl, "node_labels": labels, "x": tree.interval[0]}
                    run.case()
                    try:
                        s = tree.as_newick(root=root, precision=prec, node_labels=labels, include_branch_lengths=ibl)
                    except Exception as e:
                        run.violation("as_newick succeeds for any subtree root", desc, "%s: %s" % (type(e).__name__, e), "a string")
                        continue
                    p = 17 if prec is None else prec
                    if prec is None and all(float(x).is_integer() for x in times):
                        p = 0
                    labs = labels if labels is not None else {u: "n%d" % u for u in samples}
                    exp = expected(tree, ch, times, root, labs, p, ibl)
                    try:
                        got = parse_newick(s)
                    except Exception as e:
                        run.violation("as_newick output is well-formed Newick", desc, s, "parses")
                        continue
                    if canon(got) != canon(exp):
                        run.violation("as_newick encodes the topology below the root, the labels (samples n<id> by default) and "
                                      "branch lengths = node-time differences at the requested precision", desc, s, repr(canon(exp))[:600])
        # nexus: one TREE per marginal tree named by interval, taxa = samples
        if ts.num_samples >= 1 and all(tr.num_roots == 1 for tr in ts.trees()):
            buf = io.StringIO()
            try:
                ts.write_nexus(buf, include_alignments=False, precision=3)
                text = buf.getvalue()
                trees = re.findall(r"TREE t([0-9.]+)\^([0-9.]+) = \[&R\] (.*;)", text)
                exp_names = [("%.3f" % tr.interval[0], "%.3f" % tr.interval[1]) for tr in ts.trees()]
                if [(a, b) for a, b, _ in trees] != exp_names:
                    run.violation("write_nexus lists one tree per marginal tree named by its interval", {"tables": O.brief(t)},
                                  [(a, b) for a, b, _ in trees], exp_names)
                for (a, b, nw), tr in zip(trees, ts.trees()):
                    if nw != tr.as_newick(precision=3):
                        run.violation("write_nexus uses the same Newick strings", {"tables": O.brief(t)}, nw, tr.as_newick(precision=3))
                taxa = re.search(r"TAXLABELS (.*);", text).group(1).split()
                if taxa != ["n%d" % u for u in ts.samples()]:
                    run.violation("write_nexus taxa are the samples", {"tables": O.brief(t)}, taxa, list(ts.samples()))
            except Exception as e:
                run.violation("write_nexus succeeds", {"tables": O.brief(t)}, "%s: %s" % (type(e).__name__, e), "ok")
        # fasta wrapping
        L = int(t.sequence_length)
        if ts.num_sites and ts.num_samples and all(len(s.ancestral_state) == 1 for s in t.sites) and \
                all(len(m.derived_state) == 1 for m in t.mutations) and all(float(p).is_integer() for p in t.sites.position):
            try:
                al = list(ts.alignments(reference_sequence="N" * L, missing_data_character="-"))
                for width in (0, 1, L, max(1, L // 2), 60):
                    buf = io.StringIO()
                    ts.write_fasta(buf, wrap_width=width, reference_sequence="N" * L, missing_data_character="-")
                    recs = buf.getvalue().split(">")[1:]
                    for rec, seq, u in zip(recs, al, ts.samples()):
                        lines = rec.split("\n")
                        body = [x for x in lines[1:] if x != ""]
                        if lines[0] != "n%d" % u or "".join(body) != seq:
                            run.violation("write_fasta rows are the alignments of the samples", {"tables": O.brief(t), "width": width}, rec, seq)
                        if width > 0 and (any(len(x) != width for x in body[:-1]) or len(body[-1]) > width or any(x == "" for x in body)):
                            run.violation("write_fasta wraps at the requested width", {"tables": O.brief(t), "width": width}, body, width)
                        if width == 0 and len(body) != 1:
                            run.violation("wrap_width=0 writes one line", {"tables": O.brief(t)}, body, 1)
            except tskit.LibraryError:
                pass
            except ValueError as e:
                if "Missing data not currently supported" not in str(e):      # documented limitation
                    run.violation("write_fasta succeeds", {"tables": O.brief(t)}, "%s: %s" % (type(e).__name__, e), "ok")
            except Exception as e:
                run.violation("write_fasta succeeds", {"tables": O.brief(t)}, "%s: %s" % (type(e).__name__, e), "ok")
        if run.violations:
            break
    run.sample({"note": "see scope"})
    run.finish()


if __name__ == "__main__":
    O.run_main(main)
