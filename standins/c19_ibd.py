"""Bounded stand-in for C19: ibd_segments vs maximal shared-path intervals recomputed position by position."""
import itertools

import numpy as np
import tskit

from standins import oracle as O


def path_to(pm, u, times, max_time):
    out = [u]
    while u in pm:
        u = pm[u]
        out.append(u)
    return out


def expected_ibd(t, pairs, min_span, max_time):
    """{(a,b): [(left,right,node)]}: for each position the MRCA (if not older than max_time) and the two edge paths to
    it; adjacent positions with identical paths merge into one segment; spans must exceed min_span"""
    bps = O.breakpoints(t)
    times = t.nodes.time
    E = t.edges
    out = {}
    for (a, b) in pairs:
        segs = []
        cur = None
        for k in range(len(bps) - 1):
            x = bps[k]
            pm = {}
            eid = {}
            for e in range(E.num_rows):
                if E.left[e] <= x < E.right[e]:
                    pm[int(E.child[e])] = int(E.parent[e])
                    eid[int(E.child[e])] = e
            pa, pb = path_to(pm, a, times, max_time), path_to(pm, b, times, max_time)
            m = next((w for w in pa if w in pb), None)
            key = None
            if m is not None and times[m] <= max_time:
                ka = tuple(eid[w] for w in pa[:pa.index(m)])
                kb = tuple(eid[w] for w in pb[:pb.index(m)])
                key = (m, ka, kb)
            if cur is not None and key is not None and cur[2] == key:
                cur = (cur[0], bps[k + 1], key)
            else:
                if cur is not None:
                    segs.append(cur)
                cur = (bps[k], bps[k + 1], key) if key is not None else None
        if cur is not None:
            segs.append(cur)
        segs = [(l, r, key[0]) for (l, r, key) in segs if (r - l) > min_span]
        if segs:
            out[(a, b)] = segs
    return out


def main():
    run = O.Run("c19_ibd")
    N = run.budget(8000, 80000)
    run.scope = ("%d seeded small tree sequences (integer coordinates) x within / between sample sets x min_span (incl. values "
                 "equal to a segment span) x max_time (incl. node times) x store_pairs/store_segments" % N)
    for k in range(N):
        t = O.random_tables(run.rng, sites=False, max_breaks=3, internal_samples=True, integer_coords=True, L=float(run.rng.choice([4, 6, 10])),
                            odd_flags=(k % 3 == 0))
        ts = t.tree_sequence()
        n = t.nodes.num_rows
        nodes = list(range(n))
        mode = run.rng.choice(["within_default", "within", "between"])
        times = sorted(set(float(x) for x in t.nodes.time))
        max_time = run.rng.choice([None] + times)
        min_span = run.rng.choice([0, 0, 1, 2, 3, 0.5])
        kwargs = {}
        if mode == "within_default":
            samples = list(ts.samples())
            pairs = list(itertools.combinations(samples, 2))
        elif mode == "within":
            samples = sorted(run.rng.sample(nodes, run.rng.randint(1, min(4, n))))
            kwargs["within"] = samples
            pairs = list(itertools.combinations(samples, 2))
        else:
            pool = run.rng.sample(nodes, run.rng.randint(2, min(5, n))) if n >= 2 else None
            if pool is None:
                continue
            cut = run.rng.randint(1, len(pool) - 1)
            sets = [pool[:cut], pool[cut:]]
            kwargs["between"] = sets
            pairs = [tuple(sorted((a, b))) for a in sets[0] for b in sets[1]]
        exp = expected_ibd(t, pairs, min_span, float("inf") if max_time is None else max_time)
        desc = {"case": "seed=%d case=%d" % (run.seed, k), "tables": O.brief(t), "args": kwargs, "min_span": min_span,
                "max_time": max_time}
        run.case()
        try:
            res = ts.ibd_segments(min_span=min_span, max_time=max_time, store_pairs=True, store_segments=True, **kwargs)
        except Exception as e:
            run.violation("ibd_segments succeeds", desc, "%s: %s" % (type(e).__name__, e), "ok")
            break
        got = {}
        for pair, segs in res.items():
            got[tuple(sorted(pair))] = sorted((s.left, s.right, s.node) for s in segs)
        expn = {p: sorted(v) for p, v in exp.items()}
        if got != expn:
            diff = {p: (got.get(p), expn.get(p)) for p in set(got) | set(expn) if got.get(p) != expn.get(p)}
            run.violation("segments are exactly the maximal shared-path intervals with span > min_span and MRCA time <= max_time",
                          desc, {str(p): v[0] for p, v in diff.items()}, {str(p): v[1] for p, v in diff.items()})
            break
        nseg = sum(len(v) for v in expn.values())
        span = sum(r - l for v in expn.values() for (l, r, _) in v)
        if res.num_segments != nseg or abs(res.total_span - span) > 1e-9 or res.num_pairs != len(expn):
            run.violation("num_segments / total_span / num_pairs are the aggregates", desc,
                          (res.num_segments, res.total_span, res.num_pairs), (nseg, span, len(expn)))
        # summaries without storing
        res2 = ts.ibd_segments(min_span=min_span, max_time=max_time, **kwargs)
        if res2.num_segments != nseg or abs(res2.total_span - span) > 1e-9:
            run.violation("aggregates without store options", desc, (res2.num_segments, res2.total_span), (nseg, span))
        if run.violations:
            break
    run.sample({"note": "see scope"})
    run.finish()


if __name__ == "__main__":
    O.run_main(main)
