"""Bounded stand-in for C20: map_mutations reproduces the data with the minimum number of state changes."""
import itertools

import numpy as np
import tskit

from standins import oracle as O

INF = 10**9


def min_changes(tree, genotypes, samples, ancestral=None, nalleles=None):
    """Sankoff/Fitch DP over the forest under the virtual root: minimum number of state changes.
    A change is counted on the branch above a root too when its state differs from the ancestral state."""
    g = dict(zip(samples, genotypes))
    states = sorted(set(x for x in genotypes if x != -1) | ({ancestral} if ancestral is not None else set()))
    if not states:
        return None

    def cost(u):
        c = {}
        kids = tree.children(u)
        sub = [cost(k) for k in kids]
        for s in states:
            if u in g and g[u] != -1 and g[u] != s:
                c[s] = INF
                continue
            tot = 0
            for sc in sub:
                tot += min(sc[x] + (0 if x == s else 1) for x in states)
            c[s] = tot
        return c
    roots = tree.roots
    rc = [cost(r) for r in roots]
    best = INF
    for a in (states if ancestral is None else [ancestral]):
        tot = sum(min(c[x] + (0 if x == a else 1) for x in states) for c in rc)
        best = min(best, tot)
    return best


def replay(tree, samples, ancestral_state, muts):
    """genotype of every sample under the returned (ancestral_state, mutations)"""
    on = {}
    for m in muts:
        on[m.node] = m.derived_state          # later entries on the same node do not occur
    out = []
    for s in samples:
        u = s
        st = None
        while u != -1:
            if u in on:
                st = on[u]
                break
            u = tree.parent(u)
        out.append(ancestral_state if st is None else st)
    return out


def main():
    run = O.Run("c20_parsimony")
    N = run.budget(300, 3000)
    run.scope = ("%d seeded small trees (multiple roots, unary nodes, internal samples, polytomies) x every genotype vector over "
                 "<=3 alleles with missing data (<=5 samples) x fixed ancestral state (also outside the observed alleles); stars, an "
                 "internal polytomy and isolated roots of 255-513 leaves with 1, 2 or 44 derived leaves" % N)
    for k in range(N):
        t = O.random_tables(run.rng, sites=False, max_samples=4, max_internal=3, max_breaks=0, internal_samples=True)
        ts = t.tree_sequence()
        tree = ts.first()
        samples = list(ts.samples())
        if not samples or len(samples) > 5:
            continue
        alleles = ["A", "C", "G", "T"]
        space = list(itertools.product([-1, 0, 1, 2], repeat=len(samples)))
        run.rng.shuffle(space)
        for geno in space[:run.budget(12, 60)]:
            if all(x == -1 for x in geno):
                continue
            for anc in (None, 0, 1, 3):
                desc = {"case": "seed=%d case=%d" % (run.seed, k), "tables": O.brief(t), "genotypes": list(geno),
                        "ancestral_state": anc}
                run.case()
                kw = {} if anc is None else {"ancestral_state": alleles[anc]}
                try:
                    a, muts = tree.map_mutations(np.array(geno, dtype=np.int8), alleles, **kw)
                except Exception as e:
                    run.violation("map_mutations succeeds", desc, "%s: %s" % (type(e).__name__, e), "ok")
                    continue
                if anc is not None and a != alleles[anc]:
                    run.violation("fixed ancestral state is returned", desc, a, alleles[anc])
                # reproduces the data
                got = replay(tree, samples, a, muts)
                exp = [alleles[x] if x != -1 else None for x in geno]
                if any(e is not None and g != e for g, e in zip(got, exp)):
                    run.violation("the placement reproduces every non-missing genotype", desc, got, exp)
                # valid mutation-table order: parent before child, parent is the nearest mutation above
                for j, m in enumerate(muts):
                    if m.parent != -1 and not (0 <= m.parent < j):
                        run.violation("parents precede children in the returned list", desc, [(x.node, x.parent) for x in muts], "parent < index")
                    u = tree.parent(m.node)
                    near = -1
                    while u != -1 and near == -1:
                        for q in range(j):
                            if muts[q].node == u:
                                near = q
                        u = tree.parent(u)
                    if m.parent != near:
                        run.violation("mutation parent is the nearest mutation above", desc, (j, m.parent), near)
                # minimality against an independent DP
                best = min_changes(tree, list(geno), samples, ancestral=anc)
                if best is not None and len(muts) != best:
                    run.violation("the number of mutations is the minimum possible", desc,
                                  {"returned": len(muts), "mutations": [(m.node, m.derived_state, m.parent) for m in muts], "ancestral": a}, best)
        if run.violations:
            break
    # wide nodes: more children than fit in a byte-sized tally (stars, an internal polytomy, many isolated roots)
    def wide_tree(kind, n):
        t = tskit.TableCollection(1.0)
        for _ in range(n):
            t.nodes.add_row(flags=1, time=0)
        if kind == "star":
            r = t.nodes.add_row(time=1)
            for u in range(n):
                t.edges.add_row(0, 1, r, u)
        elif kind == "inner":
            p_ = t.nodes.add_row(time=1)
            r = t.nodes.add_row(time=2)
            for u in range(n - 3):
                t.edges.add_row(0, 1, p_, u)
            for u in range(n - 3, n):
                t.edges.add_row(0, 1, r, u)
            t.edges.add_row(0, 1, r, p_)
        t.sort()
        return t
    for kind in ("star", "inner", "isolated"):
        for n in (255, 256, 257, 258, 300, 513):
            for nder in (1, 2, 44):
                if run.violations:
                    break
                t = wide_tree(kind, n)
                tree = t.tree_sequence().first()
                samples = list(range(n))
                geno = [0] * n
                for u in run.rng.sample(range(n), nder):
                    geno[u] = 1
                for anc in (None, 0):
                    run.case(("wide", kind, n, nder, anc))
                    kw = {} if anc is None else {"ancestral_state": "A"}
                    a, muts = tree.map_mutations(np.array(geno, dtype=np.int8), ["A", "C"], **kw)
                    got = replay(tree, samples, a, muts)
                    if got != ["AC"[x] for x in geno]:
                        run.violation("the placement reproduces every non-missing genotype", {"tree": kind, "n": n, "derived": nder}, "mismatch", "identical")
                    best = min(nder, n - nder) if (anc is None and kind != "inner") else None
                    if kind in ("star", "isolated"):
                        best = min(nder, n - nder) if anc is None else nder
                    else:
                        best = min_changes(tree, geno, samples, ancestral=anc)
                    if len(muts) != best:
                        run.violation("the number of mutations is the minimum possible",
                                      {"tree": kind, "n": n, "derived_leaves": nder, "ancestral_state": anc},
                                      {"returned": len(muts), "ancestral": a}, best)
    run.sample({"note": "see scope"})
    run.finish()


if __name__ == "__main__":
    O.run_main(main)
