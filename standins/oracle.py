"""First-principles oracles and small-scope generators shared by the bounded stand-ins (E4).

Nothing here calls tskit's tree machinery: trees, genotypes and validity are recomputed from the raw table
columns, so a stand-in compares the library with the definition and not with itself."""
import argparse
import itertools
import json
import math
import random
import sys
import time

import numpy as np

import tskit

NULL = -1


# ------------------------------------------------------------------------------------------ reporting
class Run:
    def __init__(self, name):
        ap = argparse.ArgumentParser()
        ap.add_argument("--tier", default="quick")
        ap.add_argument("--seed", type=int, default=0)
        ap.add_argument("--replay", default=None)
        self.args = ap.parse_args()
        self.name = name
        self.tier = self.args.tier
        self.seed = self.args.seed
        self.rng = random.Random(self.args.seed * 7919 + 17)
        self.evaluations = 0
        self.distinct = set()
        self.violations = []
        self.samples = []
        self.t0 = time.time()
        self.replay = json.load(open(self.args.replay)) if self.args.replay else None
        self.scope = ""
        global CURRENT
        CURRENT = self
        assert "/repo/" not in tskit.__file__ and "site-packages" not in tskit.__file__, tskit.__file__

    def budget(self, quick, thorough):
        return quick if self.tier == "quick" else thorough

    def case(self, key=None):
        self.evaluations += 1
        if key is not None:
            self.distinct.add(key)

    def violation(self, clause, inp, observed, expected):
        if sum(1 for v in self.violations if v["clause"] == clause) < 2 and len(self.violations) < 8:
            self.violations.append({"clause": clause, "input": inp, "observed": _j(observed), "expected": _j(expected)})

    def sample(self, s):
        if len(self.samples) < 3:
            self.samples.append(_j(s))

    def finish(self):
        out = {"evaluations": self.evaluations, "distinct_nontrivial": len(self.distinct) or self.evaluations,
               "scope": self.scope, "violations": self.violations, "samples": self.samples,
               "seconds": round(time.time() - self.t0, 1), "tskit": tskit.__file__}
        print("RESULT " + json.dumps(out, default=str))
        sys.exit(0)


CURRENT = None


def run_main(main):
    """entry point of every stand-in: an exception escaping the stand-in while it reads or compares what the library
    returned for a generated input (e.g. an id in the result that is out of range) is a violation carrying the
    traceback, not a crash of the checker"""
    import traceback
    try:
        main()
    except SystemExit:
        raise
    except BaseException as e:       # noqa
        if CURRENT is None:
            raise
        CURRENT.violation("the library's results for a generated input can be read and compared (no exception escapes)",
                          {"standin": CURRENT.name, "seed": CURRENT.seed, "evaluations_so_far": CURRENT.evaluations},
                          "%s: %s\n%s" % (type(e).__name__, e, traceback.format_exc()[-2500:]), "no exception")
        CURRENT.finish()


def _j(x):
    try:
        json.dumps(x)
        return x
    except TypeError:
        return repr(x)[:2000]


# ------------------------------------------------------------------------------------------ generators
def random_tables(rng, max_samples=4, max_internal=4, max_breaks=3, L=None, internal_samples=True,
                  sites=True, metadata=True, integer_coords=True, individuals=False, populations=False,
                  migrations=False, odd_flags=False):
    """a small VALID table collection built directly (no simulator): forests per interval, unary nodes,
    polytomies, multiple roots, isolated and internal samples, gaps"""
    ns = rng.randint(1, max_samples)
    ni = rng.randint(0, max_internal)
    L = L or float(rng.choice([1, 2, 5, 10]))
    t = tskit.TableCollection(sequence_length=L)
    npop = rng.randint(1, 2) if populations else 0
    for p in range(npop):
        t.populations.add_row(metadata=(b"pop%d" % p) if metadata else b"")
    nind = rng.randint(1, 3) if individuals else 0
    for q in range(nind):
        par = [rng.randrange(-1, q)] if q and rng.random() < 0.5 else []
        t.individuals.add_row(flags=rng.randint(0, 3), location=[float(q)] * rng.randint(0, 2), parents=par,
                              metadata=(b"ind%d" % q) if metadata else b"")
    times = [0.0] * ns + sorted(rng.choice([0.5, 1.0, 1.5, 2.0, 3.0]) + 0.01 * k for k in range(ni))
    for u, tm in enumerate(times):
        is_sample = u < ns or (internal_samples and rng.random() < 0.2)
        fl = tskit.NODE_IS_SAMPLE if is_sample else 0
        if odd_flags and rng.random() < 0.3:
            fl |= rng.choice([1 << 17, 1 << 18, 2, 1 << 20])       # e.g. msprime full-ARG / tsinfer flags
        t.nodes.add_row(flags=fl, time=tm,
                        population=rng.randrange(-1, npop) if npop else -1,
                        individual=rng.randrange(-1, nind) if nind else -1,
                        metadata=(b"n%d" % u) if metadata and rng.random() < 0.7 else b"")
    n = ns + ni
    nb = rng.randint(0, max_breaks)
    if integer_coords:
        cand = [x for x in range(1, int(L))]
        rng.shuffle(cand)
        bps = sorted(cand[:nb])
    else:
        bps = sorted(set(round(rng.uniform(0, L), 3) for _ in range(nb)) - {0.0, L})
    bounds = [0.0] + [float(b) for b in bps] + [L]
    # per interval: parent of each node (only strictly older parents)
    per = []
    head_gap = rng.random() < 0.2        # edges only in the right part: a leading gap longer than L/2
    tail_gap = rng.random() < 0.1
    for k in range(len(bounds) - 1):
        par = {}
        if (head_gap and bounds[k + 1] <= 0.75 * L and k + 1 < len(bounds) - 1) or \
                (tail_gap and bounds[k] >= 0.5 * L and k > 0) or rng.random() < 0.15:
            per.append(par)      # a gap with no edges
            continue
        for u in range(n):
            older = [v for v in range(n) if times[v] > times[u]]
            if older and rng.random() < 0.8:
                if per and u in per[-1] and rng.random() < 0.6:
                    par[u] = per[-1][u]
                else:
                    par[u] = rng.choice(older)
        per.append(par)
    edges = []
    for u in range(n):
        k = 0
        while k < len(per):
            if u in per[k]:
                p = per[k][u]
                k2 = k
                while k2 + 1 < len(per) and per[k2 + 1].get(u) == p:
                    k2 += 1
                edges.append((bounds[k], bounds[k2 + 1], p, u))
                k = k2 + 1
            else:
                k += 1
    edges.sort(key=lambda e: (times[e[2]], e[2], e[3], e[0]))
    for (l, r, p, c) in edges:
        t.edges.add_row(l, r, p, c, metadata=(b"e%d-%d" % (p, c)) if metadata and rng.random() < 0.5 else b"")
    if sites:
        nsites = rng.randint(0, 3)
        poss = sorted(rng.sample([x + 0.0 for x in range(int(L))] + [0.5], min(nsites, int(L) + 1))) if integer_coords \
            else sorted(set(round(rng.uniform(0, L - 1e-6), 4) for _ in range(nsites)))
        alleles = ["A", "C", "G", "T", ""]
        for pos in poss:
            s = t.sites.add_row(position=pos, ancestral_state=rng.choice(alleles[:4]),
                                metadata=(b"s%d" % int(pos * 10)) if metadata and rng.random() < 0.5 else b"")
            pm = parent_map_cols(t, pos)
            # mutations in parent-before-child order: sort nodes by decreasing depth from roots
            nodes_here = [u for u in range(n)]
            rng.shuffle(nodes_here)
            chosen = [u for u in nodes_here if rng.random() < 0.35][:4]
            order = sorted(chosen, key=lambda u: -times[u])
            added = {}
            for u in order:
                reps = 2 if rng.random() < 0.2 else 1
                for _ in range(reps):
                    # nearest mutation above (incl. same node, added earlier)
                    par = NULL
                    v = u
                    while v != NULL:
                        if v in added:
                            par = added[v]
                            break
                        v = pm.get(v, NULL)
                    m = t.mutations.add_row(site=s, node=u, derived_state=rng.choice(alleles), parent=par,
                                            time=tskit.UNKNOWN_TIME,
                                            metadata=(b"m") if metadata and rng.random() < 0.3 else b"")
                    added[u] = m
    if migrations and npop:
        for _ in range(rng.randint(0, 2)):
            a = rng.choice(bounds[:-1])
            t.migrations.add_row(left=a, right=L, node=rng.randrange(n), source=rng.randrange(npop),
                                 dest=rng.randrange(npop), time=rng.choice([0.25, 0.75, 1.25]))
        mg = sorted(t.migrations, key=lambda r: r.time)
        t.migrations.clear()
        for r in mg:
            t.migrations.add_row(r.left, r.right, r.node, r.source, r.dest, r.time)
    return t


def parent_map_cols(t, x):
    """{child: parent} at position x from the edge table columns"""
    E = t.edges
    out = {}
    for l, r, p, c in zip(E.left, E.right, E.parent, E.child):
        if l <= x < r:
            out[int(c)] = int(p)
    return out


def breakpoints(t):
    E = t.edges
    s = {0.0, float(t.sequence_length)}
    s.update(float(x) for x in E.left)
    s.update(float(x) for x in E.right)
    return sorted(s)


def children_of(pm, n):
    ch = {u: [] for u in range(n)}
    for c, p in pm.items():
        ch[p].append(c)
    return ch


def samples_of(t):
    return [u for u, f in enumerate(t.nodes.flags) if f & tskit.NODE_IS_SAMPLE]


def descendants(ch, u):
    out = [u]
    st = [u]
    while st:
        v = st.pop()
        for w in ch.get(v, []):
            out.append(w)
            st.append(w)
    return out


def site_genotypes(t, site_id, samples=None, isolated_as_missing=True):
    """allele STRING per sample at a site, from first principles (None = missing)"""
    n = t.nodes.num_rows
    pos = t.sites.position[site_id]
    pm = parent_map_cols(t, pos)
    ch = children_of(pm, n)
    site = t.sites[site_id]
    muts = [(m_id, t.mutations[m_id]) for m_id in range(t.mutations.num_rows) if t.mutations.site[m_id] == site_id]
    on_node = {}
    for m_id, m in muts:       # table order: later rows on the same node override (they are children in the parent chain)
        on_node[m.node] = m.derived_state
    samples = samples_of(t) if samples is None else list(samples)
    out = []
    for s in samples:
        v = s
        state = None
        while v != NULL:
            if v in on_node:
                state = on_node[v]
                break
            v = pm.get(v, NULL)
        if state is None:
            isolated = (s not in pm) and not ch.get(s)
            state = None if (isolated and isolated_as_missing) else site.ancestral_state
        out.append(state)
    return out


def table_rows(table):
    return [tuple(_norm(x) for x in r.__dict__.values()) if hasattr(r, "__dict__") else tuple(r) for r in table]


def _norm(x):
    if isinstance(x, np.ndarray):
        return tuple(x.tolist())
    if isinstance(x, float) and math.isnan(x):
        return "nan"
    return x


def rows(table):
    out = []
    for r in table:
        d = []
        for f in r.__dataclass_fields__ if hasattr(r, "__dataclass_fields__") else r.__slots__:
            d.append(_norm(getattr(r, f)))
        out.append(tuple(d))
    return out


# ------------------------------------------------------------------------------------------ validity (C02)
def valid_tables(t, indexes=None):
    """structural requirements of docs/data-model.md for TableCollection.tree_sequence(); returns (ok, reason).
    indexes: (insertion, removal) arrays or None when the collection is not indexed"""
    fin = math.isfinite
    L = t.sequence_length
    if not (L > 0):
        return False, "sequence_length"
    N, E, S, M, G, I, P = t.nodes, t.edges, t.sites, t.mutations, t.migrations, t.individuals, t.populations
    nn, ne, ns, nm, ni, npop = N.num_rows, E.num_rows, S.num_rows, M.num_rows, I.num_rows, P.num_rows
    for u in range(nn):
        if not fin(N.time[u]):
            return False, "node time nonfinite"
        if not (-1 <= N.population[u] < npop):
            return False, "node population"
        if not (-1 <= N.individual[u] < ni):
            return False, "node individual"
    for e in range(ne):
        p, c, l, r = int(E.parent[e]), int(E.child[e]), E.left[e], E.right[e]
        if not (0 <= p < nn and 0 <= c < nn):
            return False, "edge node ref"
        if not (fin(l) and fin(r)) or l < 0 or r > L or not (l < r):
            return False, "edge interval"
        if not (N.time[c] < N.time[p]):
            return False, "edge time order"
    # ordering of edges: (time[parent], parent) non-decreasing groups, contiguous parents, child/left increasing
    seen_parents = set()
    for e in range(1, ne):
        p0, p1 = int(E.parent[e - 1]), int(E.parent[e])
        if N.time[p1] < N.time[p0]:
            return False, "edges not sorted by parent time"
        if p0 != p1:
            seen_parents.add(p0)
            if p1 in seen_parents:
                return False, "noncontiguous parents"
        else:
            c0, c1 = int(E.child[e - 1]), int(E.child[e])
            if c1 < c0:
                return False, "edges not sorted by child"
            if c1 == c0 and not (E.left[e] > E.left[e - 1]):
                return False, "edges not sorted by left / duplicate"
    for s in range(ns):
        x = S.position[s]
        if not fin(x) or x < 0 or not (x < L):
            return False, "site position"
        if s > 0 and not (S.position[s - 1] < x):
            return False, "sites unsorted or duplicate"
    for m in range(nm):
        if not (0 <= M.site[m] < ns and 0 <= M.node[m] < nn and -1 <= M.parent[m] < nm) or M.parent[m] == m:
            return False, "mutation refs"
        tm = M.time[m]
        unk = tskit.is_unknown_time(tm)
        if not unk:
            if not fin(tm) or tm < N.time[M.node[m]]:
                return False, "mutation time"
        if M.parent[m] != -1:
            pm_ = int(M.parent[m])
            if M.site[pm_] != M.site[m] or pm_ > m:
                return False, "mutation parent"
            if not unk and tm > M.time[pm_]:
                return False, "mutation older than parent mutation"
        if m > 0:
            if M.site[m - 1] > M.site[m]:
                return False, "mutations unsorted"
            if M.site[m - 1] == M.site[m]:
                if unk != tskit.is_unknown_time(M.time[m - 1]):
                    return False, "known and unknown times"
                if not unk and tm > M.time[m - 1]:
                    return False, "mutations unsorted by time"
    for g in range(G.num_rows):
        if not (0 <= G.node[g] < nn and 0 <= G.source[g] < npop and 0 <= G.dest[g] < npop):
            return False, "migration refs"
        l, r = G.left[g], G.right[g]
        if not fin(G.time[g]) or not (fin(l) and fin(r)) or l < 0 or r > L or not (l < r):
            return False, "migration values"
        if g > 0 and G.time[g - 1] > G.time[g]:
            return False, "migrations unsorted"
    off = I.parents_offset
    for q in range(ni):
        for p in I.parents[off[q]:off[q + 1]]:
            if not (-1 <= p < ni) or p == q:
                return False, "individual parents"
    if indexes is None:
        return False, "not indexed"
    ins, rem = list(indexes[0]), list(indexes[1])
    if len(ins) != ne or len(rem) != ne:
        return False, "index length"
    if sorted(ins) != list(range(ne)) or sorted(rem) != list(range(ne)):
        return False, "index not a permutation"
    # the index orders must be consistent with sweeping the trees left to right
    kin = [(E.left[e], N.time[E.parent[e]]) for e in ins]
    if any(kin[a][0] > kin[a + 1][0] for a in range(ne - 1)):
        return False, "insertion order not sorted by left"
    kout = [E.right[e] for e in rem]
    if any(kout[a] > kout[a + 1] for a in range(ne - 1)):
        return False, "removal order not sorted by right"
    # disjoint child intervals
    by_child = {}
    for e in range(ne):
        by_child.setdefault(int(E.child[e]), []).append((E.left[e], E.right[e]))
    for c, ivs in by_child.items():
        ivs.sort()
        if any(ivs[a][1] > ivs[a + 1][0] for a in range(len(ivs) - 1)):
            return False, "contradictory children"
    # mutation time must be younger than the parent node of the branch it sits on
    for m in range(nm):
        tm = M.time[m]
        if not tskit.is_unknown_time(tm):
            pmap = parent_map_cols(t, S.position[M.site[m]])
            u = int(M.node[m])
            if u in pmap and not (tm < N.time[pmap[u]]):
                return False, "mutation time older than parent node"
    return True, ""


def cols(t):
    """compact exact representation of a table collection: {table: {column: list}} + sequence_length"""
    out = {"sequence_length": repr(t.sequence_length)}
    for name in ("individuals", "nodes", "edges", "migrations", "sites", "mutations", "populations", "provenances"):
        tab = getattr(t, name)
        d = {}
        for c in tab.column_names:
            a = getattr(tab, c)
            if a is None:
                continue
            d[c] = a.tobytes().hex() if a.dtype.kind in "fS" or a.dtype == np.int8 or a.dtype == np.uint8 else a.tolist()
        if tab.num_rows or any(len(v) for v in d.values()):
            out[name] = d
    return out


def same_tables(a, b):
    """byte-wise equality of every column (NaN-safe) and of the sequence length"""
    import struct
    if struct.pack("<d", a.sequence_length) != struct.pack("<d", b.sequence_length):
        return False
    for name in ("individuals", "nodes", "edges", "migrations", "sites", "mutations", "populations", "provenances"):
        ta, tb = getattr(a, name), getattr(b, name)
        if ta.num_rows != tb.num_rows:
            return False
        for c in ta.column_names:
            x, y = getattr(ta, c), getattr(tb, c)
            if x.tobytes() != y.tobytes():
                return False
        if hasattr(ta, "metadata_schema") and repr(ta.metadata_schema) != repr(tb.metadata_schema):
            return False
    return True


def brief(t):
    return {"L": t.sequence_length,
            "nodes": [(int(f), float(x), int(p), int(i)) for f, x, p, i in zip(t.nodes.flags, t.nodes.time, t.nodes.population, t.nodes.individual)],
            "edges": [(float(l), float(r), int(p), int(c)) for l, r, p, c in zip(t.edges.left, t.edges.right, t.edges.parent, t.edges.child)],
            "sites": [(float(p), a) for p, a in zip(t.sites.position, [s.ancestral_state for s in t.sites])],
            "mutations": [(int(m.site), int(m.node), m.derived_state, int(m.parent), float(m.time)) for m in t.mutations]}
