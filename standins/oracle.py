"""First-principles oracles and small-scope generators shared by the bounded stand-ins (E4).

Nothing here calls tskit's tree machinery: trees, genotypes and validity are recomputed from the raw table
columns, so a stand-in compares the library with the definition and not with itself."""
import argparse
import itertools
import json
import math
import random
import sys
import time

import numpy as np

import tskit

NULL = -1


# ------------------------------------------------------------------------------------------ reporting
class Run:
    def __init__(self, name):
        ap = argparse.ArgumentParser()
        ap.add_argument("--tier", default="quick")
        ap.add_argument("--seed", type=int, default=0)
        ap.add_argument("--replay", default=None)
        self.args = ap.parse_args()
        self.name = name
        self.tier = self.args.tier
        self.seed = self.args.seed
        self.rng = random.Random(self.args.seed * 7919 + 17)
        self.evaluations = 0
        self.distinct = set()
        self.violations = []
        self.samples = []
        self.t0 = time.time()
        self.replay = json.load(open(self.args.replay)) if self.args.replay else None
        self.scope = ""
        assert "/repo/" not in tskit.__file__ and "site-packages" not in tskit.__file__, tskit.__file__

    def budget(self, quick, thorough):
        return quick if self.tier == "quick" else thorough

    def case(self, key=None):
        self.evaluations += 1
        if key is not None:
            self.distinct.add(key)

    def violation(self, clause, inp, observed, expected):
        if len(self.violations) < 5:
            self.violations.append({"clause": clause, "input": inp, "observed": _j(observed), "expected": _j(expected)})

    def sample(self, s):
        if len(self.samples) < 3:
            self.samples.append(_j(s))

    def finish(self):
        out = {"evaluations": self.evaluations, "distinct_nontrivial": len(self.distinct) or self.evaluations,
               "scope": self.scope, "violations": self.violations, "samples": self.samples,
               "seconds": round(time.time() - self.t0, 1), "tskit": tskit.__file__}
        print("RESULT " + json.dumps(out, default=str))
        sys.exit(0)


def _j(x):
    try:
        json.dumps(x)
        return x
    except TypeError:
        return repr(x)[:2000]


# ------------------------------------------------------------------------------------------ generators
def random_tables(rng, max_samples=4, max_internal=4, max_breaks=3, L=None, internal_samples=True,
                  sites=True, metadata=True, integer_coords=True, individuals=False, populations=False,
                  migrations=False):
    """a small VALID table collection built directly (no simulator): forests per interval, unary nodes,
    polytomies, multiple roots, isolated and internal samples, gaps"""
    ns = rng.randint(1, max_samples)
    ni = rng.randint(0, max_internal)
    L = L or float(rng.choice([1, 2, 5, 10]))
    t = tskit.TableCollection(sequence_length=L)
    npop = rng.randint(1, 2) if populations else 0
    for p in range(npop):
        t.populations.add_row(metadata=(b"pop%d" % p) if metadata else b"")
    nind = rng.randint(1, 3) if individuals else 0
    for q in range(nind):
        par = [rng.randrange(-1, q)] if q and rng.random() < 0.5 else []
        t.individuals.add_row(flags=rng.randint(0, 3), location=[float(q)] * rng.randint(0, 2), parents=par,
                              metadata=(b"ind%d" % q) if metadata else b"")
    times = [0.0] * ns + sorted(rng.choice([0.5, 1.0, 1.5, 2.0, 3.0]) + 0.01 * k for k in range(ni))
    for u, tm in enumerate(times):
        is_sample = u < ns or (internal_samples and rng.random() < 0.2)
        t.nodes.add_row(flags=tskit.NODE_IS_SAMPLE if is_sample else 0, time=tm,
                        population=rng.randrange(-1, npop) if npop else -1,
                        individual=rng.randrange(-1, nind) if nind else -1,
                        metadata=(b"n%d" % u) if metadata and rng.random() < 0.7 else b"")
    n = ns + ni
    nb = rng.randint(0, max_breaks)
    if integer_coords:
        cand = [x for x in range(1, int(L))]
        rng.shuffle(cand)
        bps = sorted(cand[:nb])
    else:
        bps = sorted(set(round(rng.uniform(0, L), 3) for _ in range(nb)) - {0.0, L})
    bounds = [0.0] + [float(b) for b in bps] + [L]
    # per interval: parent of each node (only strictly older parents)
    per = []
    head_gap = rng.random() < 0.2        # edges only in the right part: a leading gap longer than L/2
    tail_gap = rng.random() < 0.1
    for k in range(len(bounds) - 1):
        par = {}
        if (head_gap and bounds[k + 1] <= 0.75 * L and k + 1 < len(bounds) - 1) or \
                (tail_gap and bounds[k] >= 0.5 * L and k > 0) or rng.random() < 0.15:
            per.append(par)      # a gap with no edges
            continue
        for u in range(n):
            older = [v for v in range(n) if times[v] > times[u]]
            if older and rng.random() < 0.8:
                if per and u in per[-1] and rng.random() < 0.6:
                    par[u] = per[-1][u]
                else:
                    par[u] = rng.choice(older)
        per.append(par)
    edges = []
    for u in range(n):
        k = 0
        while k < len(per):
            if u in per[k]:
                p = per[k][u]
                k2 = k
                while k2 + 1 < len(per) and per[k2 + 1].get(u) == p:
                    k2 += 1
                edges.append((bounds[k], bounds[k2 + 1], p, u))
                k = k2 + 1
            else:
                k += 1
    edges.sort(key=lambda e: (times[e[2]], e[2], e[3], e[0]))
    for (l, r, p, c) in edges:
        t.edges.add_row(l, r, p, c, metadata=(b"e%d-%d" % (p, c)) if metadata and rng.random() < 0.5 else b"")
    if sites:
        nsites = rng.randint(0, 3)
        poss = sorted(rng.sample([x + 0.0 for x in range(int(L))] + [0.5], min(nsites, int(L) + 1))) if integer_coords \
            else sorted(set(round(rng.uniform(0, L - 1e-6), 4) for _ in range(nsites)))
        alleles = ["A", "C", "G", "T", ""]
        for pos in poss:
            s = t.sites.add_row(position=pos, ancestral_state=rng.choice(alleles[:4]),
                                metadata=(b"s%d" % int(pos * 10)) if metadata and rng.random() < 0.5 else b"")
            pm = parent_map_cols(t, pos)
            # mutations in parent-before-child order: sort nodes by decreasing depth from roots
            nodes_here = [u for u in range(n)]
            rng.shuffle(nodes_here)
            chosen = [u for u in nodes_here if rng.random() < 0.35][:4]
            order = sorted(chosen, key=lambda u: -times[u])
            added = {}
            for u in order:
                reps = 2 if rng.random() < 0.2 else 1
                for _ in range(reps):
                    # nearest mutation above (incl. same node, added earlier)
                    par = NULL
                    v = u
                    while v != NULL:
                        if v in added:
                            par = added[v]
                            break
                        v = pm.get(v, NULL)
                    m = t.mutations.add_row(site=s, node=u, derived_state=rng.choice(alleles), parent=par,
                                            time=tskit.UNKNOWN_TIME,
                                            metadata=(b"m") if metadata and rng.random() < 0.3 else b"")
                    added[u] = m
    if migrations and npop:
        for _ in range(rng.randint(0, 2)):
            a = rng.choice(bounds[:-1])
            t.migrations.add_row(left=a, right=L, node=rng.randrange(n), source=rng.randrange(npop),
                                 dest=rng.randrange(npop), time=rng.choice([0.25, 0.75, 1.25]))
        mg = sorted(t.migrations, key=lambda r: r.time)
        t.migrations.clear()
        for r in mg:
            t.migrations.add_row(r.left, r.right, r.node, r.source, r.dest, r.time)
    return t


def parent_map_cols(t, x):
    """{child: parent} at position x from the edge table columns"""
    E = t.edges
    out = {}
    for l, r, p, c in zip(E.left, E.right, E.parent, E.child):
        if l <= x < r:
            out[int(c)] = int(p)
    return out


def breakpoints(t):
    E = t.edges
    s = {0.0, float(t.sequence_length)}
    s.update(float(x) for x in E.left)
    s.update(float(x) for x in E.right)
    return sorted(s)


def children_of(pm, n):
    ch = {u: [] for u in range(n)}
    for c, p in pm.items():
        ch[p].append(c)
    return ch


def samples_of(t):
    return [u for u, f in enumerate(t.nodes.flags) if f & tskit.NODE_IS_SAMPLE]


def descendants(ch, u):
    out = [u]
    st = [u]
    while st:
        v = st.pop()
        for w in ch.get(v, []):
            out.append(w)
            st.append(w)
    return out


def site_genotypes(t, site_id, samples=None, isolated_as_missing=True):
    """allele STRING per sample at a site, from first principles (None = missing)"""
    n = t.nodes.num_rows
    pos = t.sites.position[site_id]
    pm = parent_map_cols(t, pos)
    ch = children_of(pm, n)
    site = t.sites[site_id]
    muts = [(m_id, t.mutations[m_id]) for m_id in range(t.mutations.num_rows) if t.mutations.site[m_id] == site_id]
    on_node = {}
    for m_id, m in muts:       # table order: later rows on the same node override (they are children in the parent chain)
        on_node[m.node] = m.derived_state
    samples = samples_of(t) if samples is None else list(samples)
    out = []
    for s in samples:
        v = s
        state = None
        while v != NULL:
            if v in on_node:
                state = on_node[v]
                break
            v = pm.get(v, NULL)
        if state is None:
            isolated = (s not in pm) and not ch.get(s)
            state = None if (isolated and isolated_as_missing) else site.ancestral_state
        out.append(state)
    return out


def table_rows(table):
    return [tuple(_norm(x) for x in r.__dict__.values()) if hasattr(r, "__dict__") else tuple(r) for r in table]


def _norm(x):
    if isinstance(x, np.ndarray):
        return tuple(x.tolist())
    if isinstance(x, float) and math.isnan(x):
        return "nan"
    return x


def rows(table):
    out = []
    for r in table:
        d = []
        for f in r.__dataclass_fields__ if hasattr(r, "__dataclass_fields__") else r.__slots__:
            d.append(_norm(getattr(r, f)))
        out.append(tuple(d))
    return out
