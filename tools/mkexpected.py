#!/usr/bin/env python3
"""records, from the evidence of the last runs on the UNCHANGED tree, which obligations are discharged
(contracts/expected.json).  Run after ./bin/check <id> has passed for every claimed property."""
import json, os, sys, subprocess
ROOT = os.path.dirname(os.path.dirname(os.path.abspath(__file__)))
sys.path.insert(0, ROOT)
from vf import check as chk
import importlib
out = {}
ep = os.path.join(ROOT, "contracts", "expected.json")
if os.path.exists(ep):
    out = json.load(open(ep))
for pid in sys.argv[1:]:
    P = importlib.import_module("props." + pid)
    res = chk.run_c_functions(list(getattr(P, "C_FUNCS", [])), "quick")
    names = []
    for r in res:
        for ob in r["obligations"]:
            if ob["status"] == "discharged":
                names.append(ob["name"])
    out[pid] = sorted(set(names))
    print(pid, len(out[pid]))
json.dump(out, open(ep, "w"), indent=0)
