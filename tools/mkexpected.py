#!/usr/bin/env python3
"""records, from the evidence of the last runs on the UNCHANGED tree, which obligations are discharged
(contracts/expected.json).  Run after ./bin/check <id> has passed for every claimed property."""
import json, os, sys, subprocess
ROOT = os.path.dirname(os.path.dirname(os.path.abspath(__file__)))
sys.path.insert(0, ROOT)
from vf import check as chk
import importlib
out = {}
ep = os.path.join(ROOT, "contracts", "expected.json")
if os.path.exists(ep):
    out = json.load(open(ep))
for pid in sys.argv[1:]:
    P = importlib.import_module("props." + pid)
    res = chk.run_c_functions(list(getattr(P, "C_FUNCS", [])), "quick")
    names = []
    for r in res:
        if r.get("second_look"):
            # discharged only with the long budgets: too slow to count as "reliably discharged" (an obligation listed
            # here that later times out while its weakened form has a model is reported as a violation)
            continue
        for ob in r["obligations"]:
            if ob["status"] == "discharged":
                names.append(ob["name"])
    out[pid] = sorted(set(names))
    print(pid, len(out[pid]))
json.dump(out, open(ep, "w"), indent=0)
