#!/usr/bin/env python3
"""regenerates MANIFEST.json from the props/*.py modules (claimed) and NA (not applicable)"""
import importlib, json, os, sys
ROOT = os.path.dirname(os.path.dirname(os.path.abspath(__file__)))
sys.path.insert(0, ROOT)


def technique(P):
    """names what actually decides the property (kept honest: a property whose code has no contract says so)"""
    if getattr(P, "TECHNIQUE", None):
        return P.TECHNIQUE
    nf = len(getattr(P, "C_FUNCS", []) or [])
    nl = len(getattr(P, "LEMMAS", []) or [])
    b = [x["name"] + (" on an AddressSanitizer build" if x.get("asan") is True else "") for x in (getattr(P, "BOUNDED", []) or [])]
    if nf == 0:
        return ("BOUNDED ONLY - no obligation of the contract technique bears on this property's code (Python, or C not "
                "yet under contract; no deductive verifier for Python is installed): decided by the bounded stand-in "
                "%s, a first-principles oracle run on a build of the working tree; labelled bounded, nothing counted as proved"
                % ", ".join(b))
    t = ("contract-based deductive verification of %d C functions%s: VCs generated on every run from the clang AST of the "
         "real source (sidecar contracts, loop invariants, frames, ghost functions), discharged by z3/cvc5; counter-models "
         "replayed on an ASan harness of the real function, contracts cross-checked by concrete contract testing"
         % (nf, (" + %d lemma groups" % nl) if nl else ""))
    if b:
        t += "; the parts of the property outside those functions are decided only by the bounded stand-in %s (labelled bounded)" % ", ".join(b)
    return t

props = [json.loads(l) for l in open(os.path.join(ROOT, "properties.jsonl"))]
NA = {
 "C08": "statistics are floating-point sums accumulated over trees and thread schedules: float arithmetic is uninterpreted in the VC generator, z3's FP theory cannot carry accumulation loops, and the technique is silent on concurrency; no contract within reach states 'equals the naive definition' (DESIGN.md section 8)",
 "C12": "metadata codecs are closures assembled at run time over struct, itertools and jsonschema; no deductive verifier for Python is installed and an AST->SMT encoding would have to model those C modules; the round trip for all schemas is an induction over schema structure through the closures (DESIGN.md section 8)",
}
checks = []
na = []
for p in props:
    pid = p["id"]
    if pid in NA:
        na.append({"property_id": pid, "reason": NA[pid]})
        continue
    try:
        P = importlib.import_module("props." + pid)
    except ImportError:
        na.append({"property_id": pid, "reason": "check not built yet in this session (planned in DESIGN.md section 6)"})
        continue
    checks.append({
        "property_id": pid,
        "quick_cmd": "./bin/check %s --tier quick" % pid,
        "thorough_cmd": "./bin/check %s --tier thorough" % pid,
        "evidence_file": "evidence/%s.json" % pid,
        "replay_cmd_template": "./bin/check %s --replay {path}" % pid,
        "engine": "vf",
        "level_claimed": {"category": P.LEVEL, "text": P.LEVEL_TEXT if hasattr(P, "LEVEL_TEXT") else P.EXPLANATION,
                          "design_ref": "DESIGN.md section 6 (%s)" % pid},
        "level_note": getattr(P, "LEVEL_NOTE", "trusted: clang AST dump, z3/cvc5 unsat answers, the VC generator in /verif/vf, libc contracts (malloc/memcpy/...); Rep invariants of tables are preconditions; see evidence.trusted_base / assumptions"),
        "technique": technique(P),
    })
m = {
 "version": 1,
 "setup_cmd": "./bin/setup",
 "hooks": {"guard": "TSKIT_VERIF", "enable": "no hooks are needed: contracts are sidecar files under /verif/contracts, harnesses #include the real sources; checks export TSKIT_VERIF=1 when they build",
           "baseline_off_cmd": "cd /repo && /venv/bin/python -m pytest -ra -q -p no:cacheprovider --timeout=900 --continue-on-collection-errors",
           "source_commits": [], "add_only": True},
 "engines": [
  {"name": "vf", "path": "vf/", "serves_properties": [c["property_id"] for c in checks],
   "kind_free_text": "E1 cvc: VC generator for C from clang JSON AST + z3/cvc5; E2 (VC generator for Python) was not built - Python-side properties are bounded only; E3 lemmas; E4 rt: concrete replay and bounded stand-ins on a build of /repo's working tree"}],
 "checks": checks,
 "not_applicable": na,
 "notes": "exit codes: 0 held, 1 VIOLATION (replayed, or no-failing-input-found), 2 undecided, 3 checker failure. Known findings: known_findings.json.",
}
json.dump(m, open(os.path.join(ROOT, "MANIFEST.json"), "w"), indent=1)
print("claimed:", [c["property_id"] for c in checks])
