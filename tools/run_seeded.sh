#!/bin/bash
# applies each seeded change to /repo, runs the check of its property, reverts; prints one line per change
cd "$(dirname "$0")/.."
for d in seeded/*/; do
  n=$(basename $d); [ -n "$1" ] && [[ ! " $* " =~ " $n " ]] && continue
  p=$(python3 -c "import json;print(json.load(open('$d/meta.json'))['property'])")
  git -C /repo apply $PWD/$d/patch.diff 2>/dev/null || { echo "$n PATCH-DOES-NOT-APPLY"; continue; }
  s=$(date +%s); out=$(./bin/check $p --tier quick 2>&1); rc=$?; e=$(date +%s)
  git -C /repo checkout -- .
  echo "$n prop=$p exit=$rc $((e-s))s $(echo "$out" | grep -m1 "VIOLATION\|UNDECIDED\|CHECKER\|^OK" | cut -c1-220)"
  echo "$out" > /tmp/w/seeded_$n.log
done
