#!/bin/bash
# development aid: like run_seeded.sh but against a scratch copy of /repo (VERIF_REPO) with evidence/replays redirected
# (VERIF_OUT), so /repo and /verif/evidence stay untouched. The confirming run is tools/run_seeded.sh (applies to /repo).
cd "$(dirname "$0")/.."
S=$(mktemp -d /tmp/seedrepo.XXXXXX); O=$(mktemp -d /tmp/seedout.XXXXXX)
git -C /repo worktree add --detach -f $S/repo HEAD >/dev/null 2>&1
for d in seeded/*/; do
  n=$(basename $d); [ -n "$1" ] && [[ ! " $* " =~ " $n " ]] && continue
  p=$(python3 -c "import json;print(json.load(open('$d/meta.json'))['property'])")
  git -C $S/repo apply $PWD/$d/patch.diff 2>/dev/null || { echo "$n PATCH-DOES-NOT-APPLY"; continue; }
  s=$(date +%s); out=$(VERIF_REPO=$S/repo VERIF_OUT=$O ./bin/check $p --tier quick 2>&1); rc=$?; e=$(date +%s)
  git -C $S/repo checkout -- .
  echo "$n prop=$p exit=$rc $((e-s))s $(echo "$out" | grep -m1 "VIOLATION\|UNDECIDED\|CHECKER\|^OK" | cut -c1-220)"
  echo "$out" > $O/seeded_$n.log
done
git -C /repo worktree remove --force $S/repo; git -C /repo worktree prune; rm -rf $S
echo "logs: $O"
