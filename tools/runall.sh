#!/bin/bash
# runs every claimed check (quick tier) and prints one line each
cd "$(dirname "$0")/.."
for id in $(python3 -c "import json;print(' '.join(c['property_id'] for c in json.load(open('MANIFEST.json'))['checks']))"); do
  if [ -n "$1" ] && [[ ! " $* " =~ " $id " ]]; then continue; fi
  s=$(date +%s); out=$(./bin/check $id --tier quick 2>&1); rc=$?; e=$(date +%s)
  echo "$id exit=$rc $((e-s))s $(echo "$out" | tail -1 | cut -c1-200)"
done
