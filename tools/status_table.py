#!/usr/bin/env python3
"""prints the per-property status table of DESIGN.md section 10.6 from the evidence files of the last full run"""
import glob, importlib, json, os, sys
ROOT = os.path.dirname(os.path.dirname(os.path.abspath(__file__)))
sys.path.insert(0, ROOT)
print("| Property | Functions under contract | Obligations discharged | Lemma groups | Bounded stand-in (evaluations) | Level |")
print("|---|---|---|---|---|---|")
for f in sorted(glob.glob(os.path.join(ROOT, "evidence", "C*.json"))):
    d = json.load(open(f))
    pid = d["property_id"]
    P = importlib.import_module("props." + pid)
    c = d["coverage"]
    fuc = [x for x in c.get("functions_under_contract", []) if x.get("engine") != "E3-lemma"]
    lem = [x for x in c.get("functions_under_contract", []) if x.get("engine") == "E3-lemma"]
    b = ", ".join("%s (%s%s)" % (x.get("name"), x.get("evaluations"), ", ASan build" if x.get("build") else "")
                  for x in c.get("bounded_standins", []) if x.get("name") != "contract_tests_on_real_functions")
    print("| %s | %d | %d of %d | %d | %s | %s |" % (pid, len(fuc), c.get("discharged", 0), c.get("obligations", 0), len(lem), b or "-", d["level"]))
