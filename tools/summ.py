import sys, json
for l in sys.stdin:
    if l.startswith('RESULT '):
        d = json.loads(l[7:])
        print("evaluations", d["evaluations"], "violations", len(d["violations"]), "seconds", d["seconds"], "samples", str(d.get("samples"))[:300])
        for v in [x for x in d["violations"] if "[reduce_to_site" not in x["clause"]][:2] + [x for x in d["violations"] if "[reduce_to_site" in x["clause"]][:1]:
            print("  CLAUSE:", v['clause']); print("  INPUT:", str(v['input'])[:500]); print("  OBS:", str(v['observed'])[:300]); print("  EXP:", str(v['expected'])[:300])
    elif l.strip():
        print(l.rstrip()[:300])
