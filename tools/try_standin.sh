#!/bin/bash
# dev helper: try_standin.sh <seeded name|none> <standins module> [args]  -- builds a scratch copy (with the patch) and runs the stand-in
S=$1; M=$2; shift 2
D=$(mktemp -d /tmp/mut_XXXX)
cp -r /repo/c $D/c; cp -r /repo/python $D/python
if [ "$S" != "none" ]; then (cd $D && patch -p1 -s < /verif/seeded/$S/patch.diff) || { echo PATCH-FAIL; rm -rf $D; exit 2; }; fi
(cd $D/python && /venv/bin/python setup.py -q build_ext --inplace -j 8 >/dev/null 2>&1)
(cd $D/python && PYTHONPATH=$D/python:/verif timeout 1200 /venv/bin/python -m $M "$@" 2>&1 | tail -25 | python3 /verif/tools/summ.py)
rm -rf $D
