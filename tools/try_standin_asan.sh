#!/bin/bash
# dev helper: try_standin_asan.sh <standins module> [args] -- AddressSanitizer build of /repo's working tree, runs the stand-in on it
M=$1; shift
D=$(mktemp -d /tmp/mut_XXXX)
cp -r /repo/c $D/c; cp -r /repo/python $D/python
(cd $D/python && CFLAGS="-fsanitize=address -fno-omit-frame-pointer -g -O1" LDFLAGS="-fsanitize=address" /venv/bin/python setup.py -q build_ext --inplace -j 8 >/dev/null 2>&1)
(cd $D/python && LD_PRELOAD=$(gcc -print-file-name=libasan.so) ASAN_OPTIONS=detect_leaks=0:abort_on_error=1:allocator_may_return_null=1 PYTHONPATH=$D/python:/verif timeout 3000 /venv/bin/python -m $M "$@" > $D/out.txt 2> $D/err.txt; echo "exit=$?"; grep -m1 -A12 "ERROR: AddressSanitizer" $D/err.txt | cut -c1-200; tail -3 $D/out.txt | python3 /verif/tools/summ.py)
rm -rf $D
