#!/bin/bash
# usage: verify_seed.sh <src dir with patch.diff + demo.py> <name>
# confirms: demo passes on a clean worktree build, fails with the patch; then stores it under /verif/seeded/<name>
set -u
SRC=$1; NAME=$2
WT=$(mktemp -d /tmp/seedchk_XXXX)
rmdir $WT
git -C /repo worktree add -q --detach $WT HEAD || exit 2
cp $SRC/demo.py $WT/demo.py
cd $WT/python && /venv/bin/python setup.py -q build_ext --inplace -j 4 >/dev/null 2>&1 || { echo "BUILD-CLEAN-FAIL"; }
cd $WT/python && timeout 900 /venv/bin/python ../demo.py > $WT/clean.out 2>&1; C=$?
cd $WT && git apply $SRC/patch.diff || { echo "PATCH-DOES-NOT-APPLY"; git -C /repo worktree remove --force $WT; exit 2; }
touch $WT/python/_tskitmodule.c; cd $WT/python && /venv/bin/python setup.py -q build_ext --inplace -j 4 >/dev/null 2>&1 || { echo "BUILD-PATCHED-FAIL"; }
cd $WT/python && timeout 900 /venv/bin/python ../demo.py > $WT/patched.out 2>&1; P=$?
echo "$NAME clean_exit=$C patched_exit=$P"
tail -2 $WT/clean.out; echo ---; tail -3 $WT/patched.out | cut -c1-400
if [ $C -eq 0 ] && [ $P -ne 0 ]; then
  mkdir -p /verif/seeded/$NAME
  cp $SRC/patch.diff $SRC/demo.py /verif/seeded/$NAME/
  tail -5 $WT/clean.out > /verif/seeded/$NAME/demo_clean.out; tail -20 $WT/patched.out | cut -c1-2000 > /verif/seeded/$NAME/demo_patched.out
  echo "CONFIRMED $NAME"
else
  echo "NOT-CONFIRMED $NAME"
fi
cd /; git -C /repo worktree remove --force $WT
