"""Contracts of libc / tskit leaf functions, built into the engine (trusted; listed in evidence)."""
import z3

from .cfront import CType, T_BOOL, T_DOUBLE, T_INT, T_VOID, parse_type
from . import cvc
from .cvc import (Dbl, I, NULL, PathEnd, Ptr, Region, Unsupported, Val, d_const, d_isfinite, d_isnan,
                  d_isunknown, in_range, sort_of, wrap)

TRUSTED = {
    "tsk_malloc/tsk_calloc/tsk_realloc": "return NULL or a fresh region disjoint from every other; realloc keeps the common prefix",
    "tsk_free/free/__tsk_safe_free": "no effect on other regions; use-after-free and double free are not modelled",
    "tsk_memcpy/tsk_memmove/tsk_memset/tsk_memcmp": "element-wise semantics on typed regions; overlap of memcpy operands not checked",
    "tsk_isfinite/tsk_isnan/tsk_is_unknown_time": "exact on the (kind,value) model of doubles",
    "fprintf/printf": "no effect (I/O not modelled)",
    "fread/feof": "abstract byte stream: fread delivers min(nmemb, remaining div size) complete items and advances; "
                  "a short count means end of file (I/O errors other than EOF are not modelled)",
    "memcpy of 2/4/8 bytes from a byte buffer into an integer": "value = le_k(bytes, offset), an uninterpreted decoding",
}

SIZE_MAX = (1 << 64) - 1


def _args(ex, st, argnodes):
    return [ex.rvalue(st, a) for a in argnodes]


def b_isfinite(ex, st, n, argnodes, t, w):
    a, = _args(ex, st, argnodes)
    return ex.from_bool(d_isfinite(a.v))


def b_isnan(ex, st, n, argnodes, t, w):
    a, = _args(ex, st, argnodes)
    return ex.from_bool(d_isnan(a.v))


def b_isunknown(ex, st, n, argnodes, t, w):
    a, = _args(ex, st, argnodes)
    return ex.from_bool(d_isunknown(a.v))


def b_noop(ex, st, n, argnodes, t, w):
    if t.kind in ("int", "bool"):
        v = ex.fresh("io")
        st.assume(in_range(v, t))
        return Val(t, v)
    return Val(T_VOID, None)


def b_abort(ex, st, n, argnodes, t, w):
    ex.oblige(st, "ASSERT", z3.BoolVal(False), w)
    raise PathEnd()


def _alloc(ex, st, nbytes, zero, w, name="malloc"):
    k = next(ex.fresh_ctr)
    nm = "%s%d@%s" % (name, k, w)
    ln = z3.Int("len(%s)" % nm)
    ex.len_facts.append(ln >= 0)
    r = Region(nm, None, ln, fresh=True, zero=zero)
    r.bytes = nbytes
    fail = z3.Bool("allocfail(%s)" % nm)
    return Ptr(r, nullc=fail)


def b_malloc(ex, st, n, argnodes, t, w):
    a, = _args(ex, st, argnodes)
    p = _alloc(ex, st, a.v, False, w)
    return Val(t, p)


def b_calloc(ex, st, n, argnodes, t, w):
    a, b = _args(ex, st, argnodes)
    p = _alloc(ex, st, a.v * b.v, True, w, "calloc")
    st.assume(z3.Or(p.nullc, a.v * b.v <= SIZE_MAX))
    return Val(t, p)


def b_realloc(ex, st, n, argnodes, t, w):
    old, size = _args(ex, st, argnodes)
    p = _alloc(ex, st, size.v, False, w, "realloc")
    op = old.v
    if isinstance(op, Ptr) and op.region is not None and op.region.elem is not None:
        oreg = op.region
        if not cvc._is_zero(op.off):
            raise Unsupported("realloc of interior pointer")
        nreg = p.region
        nreg.elem = oreg.elem
        sz = ex.sizeof(oreg.elem)
        ex.len_facts.append(nreg.length == size.v / sz)
        leaves = ex.leaf_fields(oreg.elem) if oreg.elem.kind == "struct" else [("", oreg.elem)]
        i = z3.Int("i!r")
        for (path, ft) in leaves:
            if ft.kind == "ptr":
                raise Unsupported("realloc of region holding pointers")
            oa = st.array(oreg, path, ft)
            na = ex.fresh("%s.%s" % (nreg.name, path), z3.ArraySort(I, sort_of(ft)))
            st.set_array(nreg, path, na)
            keep = z3.ForAll([i], z3.Implies(z3.And(i >= 0, i < oreg.length, i < nreg.length), na[i] == oa[i]))
            if op.nullc is not None:
                keep = z3.Or(op.nullc, keep)
            st.assume(z3.Or(p.nullc, keep))
    return Val(t, p)


def b_free(ex, st, n, argnodes, t, w):
    _args(ex, st, argnodes)
    return Val(T_VOID, None)


def b_safe_free(ex, st, n, argnodes, t, w):
    # __tsk_safe_free((void **) &(pointer)): frees and sets the pointer to NULL
    a = argnodes[0]
    while a["kind"] in ("ParenExpr", "CStyleCastExpr", "ImplicitCastExpr"):
        a = a["inner"][-1]
    if a["kind"] == "UnaryOperator" and a["opcode"] == "&":
        tgt = a["inner"][0]
        lv = ex.lvalue(st, tgt)
        ex.write_lvalue(st, lv, Val(lv[2], NULL), w)
        return Val(T_VOID, None)
    raise Unsupported("__tsk_safe_free shape")


def _elem_count(ex, st, p, nbytes, w):
    r = p.region
    if r.elem is None:
        raise Unsupported("memory op on untyped region")
    if p.prefix:
        raise Unsupported("memory op on field pointer")
    sz = ex.sizeof(r.elem)
    if sz == 1:
        return nbytes, sz
    ex.oblige(st, "ALIGN", nbytes % sz == 0, w)
    q = z3.simplify(nbytes / sz)
    if z3.is_int_value(q) or z3.is_const(q):
        return q, sz
    # name the element count, so that quantified copy facts mention a constant and not the byte arithmetic
    cnt = ex.fresh("cnt", z3.IntSort())
    st.assume(cnt * sz == nbytes)
    return cnt, sz


def _range_ok(ex, st, p, cnt, w, what):
    if p.region is None:
        ex.oblige(st, "BOUNDS", cnt == 0, w, name="BOUNDS(%s)@%s" % (what, w))
        return
    ok = z3.And(p.off >= 0, p.off + cnt <= p.region.length)
    if p.nullc is not None:
        ok = z3.And(z3.Not(p.nullc), ok)
    ex.oblige(st, "BOUNDS", z3.Or(cnt == 0, ok), w, name="BOUNDS(%s)@%s" % (what, w))


def _leaves(ex, reg):
    return ex.leaf_fields(reg.elem) if reg.elem.kind == "struct" else [("", reg.elem)]


def b_memcpy(ex, st, n, argnodes, t, w):
    d, s, nb = _args(ex, st, argnodes)
    dp, sp = d.v, s.v
    if dp.region is None or sp.region is None:
        _range_ok(ex, st, dp, nb.v, w, "dest")
        _range_ok(ex, st, sp, nb.v, w, "src")
        return Val(t, dp)
    if dp.region.elem is None and sp.region.elem is not None:
        ex.type_region(dp, sp.region.elem)
    if sp.region.elem is None and dp.region.elem is not None:
        ex.type_region(sp, dp.region.elem)
    if dp.region.elem is not None and sp.region.elem is not None and dp.region.elem.kind == "int" \
            and sp.region.elem.kind == "int" and ex.sizeof(sp.region.elem) == 1 and ex.sizeof(dp.region.elem) > 1 \
            and not dp.prefix:
        # decoding a little-endian integer out of a byte buffer: value = le_k(bytes, offset)
        k_ = ex.sizeof(dp.region.elem)
        ex.oblige(st, "BOUNDS", nb.v == k_, w, name="BOUNDS(memcpy-decode-size)@%s" % w)
        _range_ok(ex, st, sp, nb.v, w, "src")
        ex.check_access(st, dp, w)
        sa = st.array(sp.region, sp.prefix, sp.region.elem)
        val = le_fn(k_)(sa, sp.off)
        st.assume(in_range(val, dp.region.elem))
        da = st.array(dp.region, "", dp.region.elem)
        if ex.written_log is not None:
            ex.written_log.add((dp.region, "", "int"))
        st.set_array(dp.region, "", z3.Store(da, dp.off, val))
        return Val(t, dp)
    cnt, sz = _elem_count(ex, st, dp, nb.v, w)
    cnt2, sz2 = _elem_count(ex, st, sp, nb.v, w)
    if sz != sz2:
        raise Unsupported("memcpy between regions of different element size")
    _range_ok(ex, st, dp, cnt, w, "dest")
    _range_ok(ex, st, sp, cnt, w, "src")
    i = z3.Int("i!m")
    for (path, ft) in _leaves(ex, dp.region):
        if ft.kind == "ptr":
            raise Unsupported("memcpy of pointers")
        da = st.array(dp.region, path, ft)
        sa = st.array(sp.region, path, ft)
        na = ex.fresh("%s.%s" % (dp.region.name, path), z3.ArraySort(I, sort_of(ft)))
        st.assume(z3.ForAll([i], na[i] == z3.If(z3.And(i >= dp.off, i < dp.off + cnt),
                                                 sa[sp.off + (i - dp.off)], da[i])))
        if ex.written_log is not None:
            ex.written_log.add((dp.region, path, ft.kind))
        st.set_array(dp.region, path, na)
    return Val(t, dp)


def b_memset(ex, st, n, argnodes, t, w):
    d, c, nb = _args(ex, st, argnodes)
    dp = d.v
    if dp.region is None:
        _range_ok(ex, st, dp, nb.v, w, "dest")
        return Val(t, dp)
    if dp.region.elem is None:
        raise Unsupported("memset on untyped region")
    if dp.region.elem.kind == "struct" and dp.prefix == "":
        cnt, sz = _elem_count(ex, st, dp, nb.v, w)
    elif dp.prefix:
        # memset of an embedded struct: must cover it exactly
        ft = ex.field_type(dp.region.elem, dp.prefix)
        sz = ex.sizeof(ft)
        ex.oblige(st, "BOUNDS", nb.v == sz, w, name="BOUNDS(memset-embedded)@%s" % w)
        cnt = z3.IntVal(1)
    else:
        cnt, sz = _elem_count(ex, st, dp, nb.v, w)
    _range_ok(ex, st, Ptr(dp.region, dp.off, "", dp.nullc), cnt, w, "dest")
    cv = z3.simplify(c.v)
    if not z3.is_int_value(cv):
        raise Unsupported("memset with symbolic byte")
    byte = cv.as_long() & 0xFF
    i = z3.Int("i!s")
    if dp.prefix:
        leaves = ex.leaf_fields(ex.field_type(dp.region.elem, dp.prefix), dp.prefix)
    else:
        leaves = _leaves(ex, dp.region)
    for (path, ft) in leaves:
        if ft.kind == "ptr":
            if byte != 0:
                raise Unsupported("memset of pointers to non-zero")
            if not cvc._is_zero(dp.off) and not dp.region.local:
                raise Unsupported("memset of pointers in array")
            st.pmem[(dp.region.rid, path)] = NULL
            continue
        if ft.kind == "array":
            raise Unsupported("memset over embedded array")
        if ft.kind == "double":
            if byte != 0:
                raise Unsupported("memset of doubles to non-zero")
            val = d_const(0)
        else:
            if byte == 0:
                val = z3.IntVal(0)
            elif ft.bits == 8:
                val = z3.IntVal(byte - 256 if (ft.signed and byte >= 128) else byte)
            elif byte == 0xFF:
                val = z3.IntVal(-1 if ft.signed else (1 << ft.bits) - 1)
            else:
                raise Unsupported("memset pattern")
        da = st.array(dp.region, path, ft)
        rs_ = sort_of(ft)
        if z3.is_bv_sort(rs_) and not z3.is_bv(val):       # a flags word: the same byte pattern as a bit-vector
            val = z3.BitVecVal(val.as_long() & ((1 << rs_.size()) - 1), rs_.size())
        na = ex.fresh("%s.%s" % (dp.region.name, path), z3.ArraySort(I, rs_))
        st.assume(z3.ForAll([i], na[i] == z3.If(z3.And(i >= dp.off, i < dp.off + cnt), val, da[i])))
        if ex.written_log is not None:
            ex.written_log.add((dp.region, path, ft.kind))
        st.set_array(dp.region, path, na)
    return Val(t, dp)


def b_memcmp(ex, st, n, argnodes, t, w):
    a, b, nb = _args(ex, st, argnodes)
    ap, bp = a.v, b.v
    if ap.region is None or bp.region is None:
        _range_ok(ex, st, ap, nb.v, w, "a")
        _range_ok(ex, st, bp, nb.v, w, "b")
        r = ex.fresh("memcmp")
        st.assume(in_range(r, T_INT))
        return Val(T_INT, r)
    cnt, sz = _elem_count(ex, st, ap, nb.v, w)
    cnt2, sz2 = _elem_count(ex, st, bp, nb.v, w)
    if sz != sz2:
        raise Unsupported("memcmp between different element sizes")
    _range_ok(ex, st, ap, cnt, w, "a")
    _range_ok(ex, st, bp, cnt, w, "b")
    r = ex.fresh("memcmp")
    st.assume(in_range(r, T_INT))
    i = z3.Int("i!c")
    eqs = []
    for (path, ft) in _leaves(ex, ap.region):
        aa = st.array(ap.region, path, ft)
        ba = st.array(bp.region, path, ft)
        eqs.append(aa[ap.off + i] == ba[bp.off + i])
    st.assume((r == 0) == z3.ForAll([i], z3.Implies(z3.And(i >= 0, i < cnt), z3.And(*eqs))))
    return Val(T_INT, r)


# ---- abstract byte stream model of FILE* (C10: truncated / corrupted files) ---------------------------------
def file_model(ex, st, fp):
    """(content array, total length, current position, eof flag) of the stream fp points to"""
    if fp.region is None:
        raise Unsupported("NULL FILE*")
    rid = fp.region.rid
    key = ("file", rid)
    if key not in ex.file_consts:
        F = z3.Const("filebytes@%d" % rid, z3.ArraySort(I, I))
        m = z3.Int("filelen@%d" % rid)
        p0 = z3.Int("filepos0@%d" % rid)
        ex.len_facts.append(z3.And(m >= 0, p0 >= 0, p0 <= m))
        ex.file_consts[key] = (F, m, p0)
    F, m, p0 = ex.file_consts[key]
    cur = st.ghost.get(key)
    if cur is None:
        cur = {"pos": p0, "eof": z3.BoolVal(False)}
        st.ghost[key] = cur
    return F, m, cur


def b_fread(ex, st, n, argnodes, t, w):
    buf, size, nmemb, fp = _args(ex, st, argnodes)
    F, m, cur = file_model(ex, st, fp.v)
    bp = buf.v
    total = size.v * nmemb.v
    if bp.region is None:
        ex.oblige(st, "NONNULL", z3.BoolVal(False), w)
        raise PathEnd()
    if bp.region.elem is None:
        ex.type_region(bp, parse_type("char"))
    esz = ex.sizeof(bp.region.elem)
    if esz != 1:
        raise Unsupported("fread into non-byte buffer")
    _range_ok(ex, st, bp, total, w, "fread-buffer")
    avail = m - cur["pos"]
    items = ex.fresh("fread_items")
    nm_ = z3.simplify(nmemb.v)
    sz_ = z3.simplify(size.v)
    # number of complete items delivered: min(nmemb, avail div size)  (no I/O errors: short count <=> EOF)
    if z3.is_int_value(nm_) and nm_.as_long() == 1:
        st.assume(items == z3.If(z3.And(size.v > 0, size.v <= avail), 1, 0))
        got = z3.If(items == 1, size.v, 0)
    elif z3.is_int_value(sz_) and sz_.as_long() == 1:
        st.assume(items == z3.If(nmemb.v <= avail, nmemb.v, avail))
        got = items
    else:
        st.assume(z3.And(items >= 0, items <= nmemb.v,
                         z3.If(size.v == 0, items == 0,
                               z3.And(items * size.v <= avail,
                                      z3.Or(items == nmemb.v, (items + 1) * size.v > avail)))))
        got = items * size.v
    arr = st.array(bp.region, bp.prefix, bp.region.elem)
    na = ex.fresh("%s.fread" % bp.region.name, z3.ArraySort(I, I))
    i = z3.Int("i!f")
    # bytes are signed chars in the model; the file holds 0..255
    def as_char(b):
        return z3.If(b >= 128, b - 256, b) if bp.region.elem.signed else b
    st.assume(z3.ForAll([i], na[i] == z3.If(z3.And(i >= bp.off, i < bp.off + got),
                                            as_char(F[cur["pos"] + (i - bp.off)]), arr[i])))
    st.assume(z3.ForAll([i], z3.And(F[i] >= 0, F[i] <= 255)))
    if ex.written_log is not None:
        ex.written_log.add((bp.region, bp.prefix, "int"))
    st.set_array(bp.region, bp.prefix, na)
    newcur = {"pos": z3.simplify(cur["pos"] + got), "eof": z3.Or(cur["eof"], items < nmemb.v)}
    st.ghost = dict(st.ghost)
    st.ghost[("file", fp.v.region.rid)] = newcur
    return Val(t, items)


def b_feof(ex, st, n, argnodes, t, w):
    fp, = _args(ex, st, argnodes)
    F, m, cur = file_model(ex, st, fp.v)
    return ex.from_bool(cur["eof"])


def b_ferror(ex, st, n, argnodes, t, w):
    _args(ex, st, argnodes)
    return Val(T_INT, z3.IntVal(0))


def b_errno_location(ex, st, n, argnodes, t, w):
    if getattr(ex, "_errno_region", None) is None:
        ex._errno_region = Region("errno", T_INT, z3.IntVal(1))
    return Val(t, Ptr(ex._errno_region))


def b_strncmp(ex, st, n, argnodes, t, w):
    a, b, cnt = _args(ex, st, argnodes)
    ap, bp = a.v, b.v
    ex.check_access(st, ap, w)
    ex.check_access(st, bp, w)
    r = ex.fresh("strncmp")
    st.assume(in_range(r, T_INT))
    aa = st.array(ap.region, ap.prefix, parse_type("char"))
    ba = st.array(bp.region, bp.prefix, parse_type("char"))
    i = z3.Int("i!n")
    # strings without an embedded NUL in the first cnt bytes (the magic constant): equality of the prefixes
    st.assume((r == 0) == z3.ForAll([i], z3.Implies(z3.And(i >= 0, i < cnt.v), aa[ap.off + i] == ba[bp.off + i])))
    return Val(T_INT, r)


_le = {}


def le_fn(k):
    if k not in _le:
        _le[k] = z3.Function("le%d" % k, z3.ArraySort(I, I), I, I)
    return _le[k]


def b_strlen(ex, st, n, argnodes, t, w):
    a, = _args(ex, st, argnodes)
    p = a.v
    ex.check_access(st, p, w)
    r = ex.fresh("strlen")
    arr = st.array(p.region, p.prefix, parse_type("char"))
    i = z3.Int("i!l")
    st.assume(z3.And(r >= 0, p.off + r < p.region.length, arr[p.off + r] == 0,
                     z3.ForAll([i], z3.Implies(z3.And(i >= 0, i < r), arr[p.off + i] != 0))))
    return Val(t, r)


def b_inf(ex, st, n, argnodes, t, w):
    return Val(T_DOUBLE, Dbl.pinf)


def b_nan(ex, st, n, argnodes, t, w):
    return Val(T_DOUBLE, Dbl.nan)


TABLE = {
    "__builtin_inff": b_inf, "__builtin_inf": b_inf, "__builtin_huge_val": b_inf, "__builtin_huge_valf": b_inf,
    "__builtin_nanf": b_nan, "__builtin_nan": b_nan,
    "tsk_isfinite": b_isfinite, "isfinite": b_isfinite, "__builtin_isfinite": b_isfinite,
    "tsk_isnan": b_isnan, "isnan": b_isnan, "__builtin_isnan": b_isnan,
    "tsk_is_unknown_time": b_isunknown,
    "fprintf": b_noop, "printf": b_noop, "fflush": b_noop, "fputs": b_noop,
    "abort": b_abort,
    "tsk_malloc": b_malloc, "malloc": b_malloc,
    "tsk_calloc": b_calloc, "calloc": b_calloc,
    "tsk_realloc": b_realloc, "realloc": b_realloc,
    "tsk_free": b_free, "free": b_free, "__tsk_safe_free": b_safe_free,
    "tsk_memcpy": b_memcpy, "memcpy": b_memcpy, "tsk_memmove": b_memcpy, "memmove": b_memcpy,
    "tsk_memset": b_memset, "memset": b_memset,
    "tsk_memcmp": b_memcmp, "memcmp": b_memcmp,
    "strlen": b_strlen, "fread": b_fread, "feof": b_feof, "ferror": b_ferror,
    "__errno_location": b_errno_location, "strncmp": b_strncmp,
}
