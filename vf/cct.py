"""Concrete contract testing (bounded stand-in, E4): small inputs satisfying a function's precondition are
drawn from the solver, the REAL function is run on each through the ASan harness, and every ensures clause /
the frame is evaluated on the concrete result.  Independent of the shape of the function body, so it still
decides when a contract's loop invariants no longer apply.  Labelled bounded; never counted as proved."""
import random

import z3

from . import creplay, finst
from .cvc import has_quantifier


def _terms(ex):
    ts = []
    for name in ex.params:
        v = ex.arg_vals[name]
        if hasattr(v, "v") and z3.is_expr(v.v) and (v.v.sort() == z3.IntSort() or z3.is_bv(v.v)):
            ts.append(v.v)
    for (rid, field), arr in list(ex.heap0.arrays.items()):
        if not z3.is_const(arr):
            continue
        rs = arr.sort().range()
        if rs == z3.IntSort():
            for q in range(4):
                ts.append(arr[q])
    return ts


def precondition_witness(ex, tries=6, seed=0):
    """vacuity guard when the solver cannot decide the quantified precondition: is there a small concrete heap on
    which every requires clause is proved to hold?  (no code is run) -> True / False"""
    for m in draw_models(ex, tries, seed, 3):
        try:
            res, conc, _s = creplay.prepare(ex, m)
        except Exception:
            continue
        if conc is not None:
            return True
    return False


def run(ex, n_inputs=40, seed=0, bound=3):
    """-> dict(evaluations, violations=[replay result], inconclusive)"""
    out = {"evaluations": 0, "violations": [], "inconclusive": 0, "pre_not_met": 0, "bound": "region lengths <= %d, "
           "quantified preconditions instantiated on {-1..%d}, %d solver-drawn inputs, seed %d" % (bound + 2, bound + 1, n_inputs, seed)}
    models = draw_models(ex, n_inputs, seed, bound)
    return _run_models(ex, models, out)


def draw_models(ex, n_inputs, seed, bound):
    rnd = random.Random(seed)
    key = (ex.fname, ex.func)
    c0 = ex.contract
    dom = list(range(-1, bound + 2))
    s = z3.Solver()
    s.set("timeout", 10000)
    for a in ex.len_facts:
        s.add(a)
    for a in ex.entry.pc:
        s.add(a)
    for (nm, term) in c0._requires:
        s.add(finst._instantiate(term, dom) if has_quantifier(term) else term)
    seen = set()
    for a in ex.len_facts:
        for sym in finst._consts(a):
            if sym.decl().name().startswith("len(") and sym.get_id() not in seen:
                seen.add(sym.get_id())
                s.add(sym <= bound + 2)
    terms = _terms(ex)
    vals = [-1, 0, 1, 2, 3, 4]
    tries = 0
    models = []
    while len(models) < n_inputs and tries < n_inputs * 3:
        tries += 1
        s.push()
        pick = rnd.sample(terms, min(len(terms), rnd.randint(min(2, len(terms)), 8))) if terms else []
        for t in pick:
            s.push()
            if z3.is_bv(t):
                # words with a random lowest set bit / random dense patterns
                w = t.size()
                kbit = rnd.randrange(w)
                val = ((rnd.getrandbits(w) | 1) << kbit) & ((1 << w) - 1)
                s.add(t == z3.BitVecVal(val, w))
            else:
                s.add(t == rnd.choice(vals))
            if s.check() != z3.sat:
                s.pop()
        r = s.check()
        if r == z3.sat:
            models.append(s.model())
        while s.num_scopes() > 0:
            s.pop()
    return models


def _run_models(ex, models, out):
    # all inputs through one compiled harness (each in its own forked child)
    for start in range(0, len(models), 60):
        chunk = models[start:start + 60]
        try:
            results = creplay.replay_batch(ex, chunk)
        except Exception as e:
            results = [{"error": str(e)}] * len(chunk)
        for res in results:
            if res.get("precondition_not_met"):
                out["pre_not_met"] += 1
                continue
            if res.get("unsupported") or res.get("error") or res.get("inconclusive"):
                out["inconclusive"] += 1
                out.setdefault("inconclusive_reasons", set()).add(str(res.get("unsupported") or res.get("error") or res.get("inconclusive"))[:200])
                continue
            out["evaluations"] += 1
            if res.get("failed_on_real_code") and not out["violations"]:
                out["violations"].append(res)
        if out["violations"]:
            break
    if "inconclusive_reasons" in out:
        out["inconclusive_reasons"] = sorted(out["inconclusive_reasons"])
    return out
