"""C front end: extracts typed ASTs of single functions and record layouts from /repo's
working tree with clang, on every run.  Nothing is cached across runs."""
import hashlib
import json
import os
import re
import subprocess
import sys

REPO = os.environ.get("VERIF_REPO", "/repo")
CDIR = os.path.join(REPO, "c")

FILES = {
    "tables.c": "tskit/tables.c",
    "trees.c": "tskit/trees.c",
    "core.c": "tskit/core.c",
    "genotypes.c": "tskit/genotypes.c",
    "convert.c": "tskit/convert.c",
    "stats.c": "tskit/stats.c",
    "haplotype_matching.c": "tskit/haplotype_matching.c",
    "kastore.c": "subprojects/kastore/kastore.c",
}

CLANG_ARGS = [
    "clang", "-fsyntax-only", "-std=c99", "-DNDEBUG", "-w",
    "-I" + CDIR, "-I" + os.path.join(CDIR, "subprojects/kastore"),
]


def cpath(fname):
    return os.path.join(CDIR, FILES[fname])


class FrontEndError(Exception):
    pass


def _parse_concat_json(s):
    dec = json.JSONDecoder()
    i = 0
    docs = []
    n = len(s)
    while i < n:
        while i < n and s[i].isspace():
            i += 1
        if i >= n:
            break
        d, j = dec.raw_decode(s, i)
        docs.append(d)
        i = j
    return docs


def extract_function(fname, func):
    """Returns (FunctionDecl json with body, info dict)."""
    path = cpath(fname)
    cmd = CLANG_ARGS + ["-Xclang", "-ast-dump=json", "-Xclang", "-ast-dump-filter=" + func, path]
    p = subprocess.run(cmd, capture_output=True, text=True)
    if p.returncode != 0:
        raise FrontEndError("clang failed on %s: %s" % (path, p.stderr[-2000:]))
    best = None
    for d in _parse_concat_json(p.stdout):
        if d.get("kind") == "FunctionDecl" and d.get("name") == func:
            if any(c.get("kind") == "CompoundStmt" for c in d.get("inner", [])):
                best = d
    if best is None:
        raise FrontEndError("function %s not found with a body in %s" % (func, path))
    rng = best.get("range", {})
    b = rng.get("begin", {})
    e = rng.get("end", {})
    b = b.get("expansionLoc", b)
    e = e.get("expansionLoc", e)
    src = open(path, "rb").read()
    bo, eo = b.get("offset", 0), e.get("offset", 0) + 1
    text = src[bo:eo]
    line0 = src[:bo].count(b"\n") + 1
    info = {
        "function": func,
        "file": "c/" + FILES[fname],
        "sha256": hashlib.sha256(text).hexdigest(),
        "lines": [line0, line0 + text.count(b"\n")],
    }
    return best, info


_layout_cache = {}


def record_layouts(fname):
    """{record name: [(field name, type string)]} for every record laid out in the TU."""
    if fname in _layout_cache:
        return _layout_cache[fname]
    path = cpath(fname)
    cmd = CLANG_ARGS + ["-Xclang", "-fdump-record-layouts", path]
    p = subprocess.run(cmd, capture_output=True, text=True)
    if p.returncode != 0:
        raise FrontEndError("clang failed on %s: %s" % (path, p.stderr[-2000:]))
    recs = {}
    cur = None
    for line in p.stdout.splitlines():
        m = re.match(r"^\s*(\d+) \| (.*)$", line)
        if not m:
            m2 = re.match(r"^\s*\| \[sizeof=(\d+)", line)
            if m2 and cur is not None:
                recs[cur]["size"] = int(m2.group(1))
                cur = None
            continue
        off = int(m.group(1))
        rest = m.group(2)
        ind = len(rest) - len(rest.lstrip(" "))
        rest = rest.strip()
        if ind == 0:
            name = rest
            for pre in ("struct ", "union "):
                if name.startswith(pre):
                    name = name[len(pre):]
            an = _anon_name(name)
            if an is not None:
                name = an
            cur = name
            recs[cur] = {"fields": [], "size": None}
        elif ind == 2 and cur is not None:
            # "type name" ; type may contain spaces / '*' ; arrays: "char[8] name"
            mm = re.match(r"^(.*?)\s*([A-Za-z_][A-Za-z0-9_]*)$", rest)
            if mm:
                recs[cur]["fields"].append((mm.group(2), mm.group(1).strip(), off))
    _layout_cache[fname] = recs
    # clang lays out only the records a translation unit needs; a record reached through pointers alone (e.g. the table
    # collection from genotypes.c) is taken from the translation unit that defines its operations (same headers)
    if fname not in ("tables.c", "kastore.c"):
        for other in ("trees.c", "tables.c"):
            if other != fname:
                try:
                    for k_, v_ in record_layouts(other).items():
                        recs.setdefault(k_, v_)
                except FrontEndError:
                    pass
    return recs


# ------------------------------------------------------------------------------------------
# C types

class CType:
    __slots__ = ("kind", "bits", "signed", "to", "name", "n")

    def __init__(self, kind, bits=0, signed=False, to=None, name=None, n=None):
        self.kind = kind      # int, bool, double, ptr, struct, array, void, func
        self.bits = bits
        self.signed = signed
        self.to = to
        self.name = name
        self.n = n

    def __repr__(self):
        if self.kind == "int":
            return ("i" if self.signed else "u") + str(self.bits)
        if self.kind == "ptr":
            return "ptr(%r)" % (self.to,)
        if self.kind == "struct":
            return "struct " + self.name
        if self.kind == "array":
            return "%r[%s]" % (self.to, self.n)
        return self.kind

    def is_scalar(self):
        return self.kind in ("int", "bool", "double")


T_VOID = CType("void")
T_BOOL = CType("bool", 8)
T_DOUBLE = CType("double", 64)
T_INT = CType("int", 32, True)

_BASE = {
    "int": (32, True), "signed int": (32, True), "unsigned int": (32, False), "unsigned": (32, False),
    "long": (64, True), "unsigned long": (64, False), "long long": (64, True),
    "unsigned long long": (64, False), "short": (16, True), "unsigned short": (16, False),
    "char": (8, True), "signed char": (8, True), "unsigned char": (8, False),
    "tsk_id_t": (32, True), "tsk_size_t": (64, False), "tsk_flags_t": (32, False),
    "size_t": (64, False), "ssize_t": (64, True), "off_t": (64, True),
    "int8_t": (8, True), "uint8_t": (8, False), "int16_t": (16, True), "uint16_t": (16, False),
    "int32_t": (32, True), "uint32_t": (32, False), "int64_t": (64, True), "uint64_t": (64, False),
    "tsk_bookmark_id_t": (32, True), "tsk_bool_t": (8, False), "ptrdiff_t": (64, True), "uintptr_t": (64, False),
    "__int128": (128, True), "unsigned __int128": (128, False),
}


BV_TYPES = {"tsk_flags_t"}       # C types modelled as bit-vectors (a contract may add e.g. uint64_t for bit sets)


def _anon_name(s):
    m = re.search(r"\((?:unnamed|anonymous)[^)]*? at ([^)]*?)\)", s)
    if not m:
        return None
    loc = m.group(1)
    return "anon@" + os.path.basename(loc.split(":")[0]) + ":" + ":".join(loc.split(":")[1:])


def parse_type(s):
    s = s.strip()
    an = _anon_name(s)
    if an is not None:
        rest = s[s.rfind(")") + 1:]
        t = CType("struct", name=an)
        for _ in range(rest.count("*")):
            t = CType("ptr", 64, to=t)
        return t
    # function pointer / function types
    if "(" in s:
        return CType("func", name=s)
    # strip qualifiers
    toks = s.replace("*", " * ").split()
    toks = [t for t in toks if t not in ("const", "volatile", "restrict", "__restrict", "struct", "union", "enum")]
    # array suffix
    arr = None
    if toks and re.match(r".*\[\d*\]$", toks[-1]) and "*" not in toks[-1]:
        pass
    s2 = " ".join(toks)
    m = re.match(r"^(.*?)\s*((\[\d*\])+)$", s2)
    dims = []
    if m:
        s2 = m.group(1).strip()
        dims = [int(x) if x else None for x in re.findall(r"\[(\d*)\]", m.group(2))]
    nptr = 0
    while s2.endswith("*"):
        s2 = s2[:-1].strip()
        nptr += 1
    base = s2
    if base in _BASE:
        b, sg = _BASE[base]
        t = CType("int", b, sg, name="flags" if base in BV_TYPES else None)
    elif base in ("bool", "_Bool"):
        t = T_BOOL
    elif base in ("double", "float", "long double"):
        t = T_DOUBLE
    elif base == "void":
        t = T_VOID
    elif base == "FILE":
        t = CType("struct", name="FILE")
    else:
        t = CType("struct", name=base)
    for _ in range(nptr):
        t = CType("ptr", 64, to=t)
    for d in reversed(dims):
        t = CType("array", to=t, n=d)
    return t


def node_type(n):
    t = n.get("type")
    if not t:
        return T_VOID
    q = t.get("qualType")
    dq = t.get("desugaredQualType")
    ty = parse_type(q)
    # typedef'ed names of scalars not in _BASE: fall back to the desugared type
    if ty.kind == "struct" and dq and dq != q:
        t2 = parse_type(dq)
        if t2.kind != "struct" or t2.name != ty.name:
            if t2.kind != "struct":
                return t2
            return t2
    return ty


def sizeof_type(t, layouts):
    if t.kind in ("int", "bool", "double"):
        return t.bits // 8
    if t.kind == "ptr" or t.kind == "func":
        return 8
    if t.kind == "struct":
        r = layouts.get(t.name)
        if r and r.get("size"):
            return r["size"]
        raise FrontEndError("sizeof unknown struct " + str(t.name))
    if t.kind == "array":
        return t.n * sizeof_type(t.to, layouts)
    raise FrontEndError("sizeof " + repr(t))


if __name__ == "__main__":
    d, info = extract_function(sys.argv[1], sys.argv[2])
    print(info)
