"""bin/check <property> --tier quick|thorough [--replay path]

Exit codes: 0 held / 1 VIOLATION / 2 undecided / 3 checker failure (DESIGN.md section 4)."""
import argparse
import hashlib
import importlib
import json
import multiprocessing as mp
import os
import sys
import time
import traceback

ROOT = os.path.dirname(os.path.dirname(os.path.abspath(__file__)))
sys.path.insert(0, ROOT)


def _verify_c(job):
    """worker: generate and discharge the obligations of one C function"""
    fname, func, tier, opts = job
    import z3
    from vf import cvc, registry, solve, builtins
    t0 = time.time()
    out = {"file": fname, "function": func, "obligations": [], "error": None, "error_kind": None,
           "info": None, "assumptions": [], "gen_s": 0.0}
    ex = None
    try:
        reg = registry.load_all()
        errs = registry.Errs()
        meta = reg.meta.get((fname, func), {})
        o = dict(meta.get("opts", {}))
        o.update(opts or {})
        ex = cvc.Exec(fname, func, reg, errs, opts=o)
        out["info"] = ex.info
        _fn, pn = reg.get((fname, func))
        obs = ex.run()
        if list(pn) != list(ex.params)[:len(pn)] or len(pn) != len(ex.params):
            raise cvc.ContractMismatch("parameter list of %s is %s, contract says %s" % (func, ex.params, pn))
        out["gen_s"] = time.time() - t0
        out["trivial"] = sorted(set(ex.trivial))
        out["paths"] = ex.npaths
        out["exits"] = ex.nexits
        out["assumptions"] = sorted(set(ex.assumptions))
        # vacuity: precondition satisfiable
        s = z3.Solver()
        s.set("timeout", 10000)
        s.add(*ex.pre_pc)
        r = s.check()
        out["sat_pre"] = str(r)
        uncovered = [str(k) for k, v in ex.covers.items() if not v]
        out["uncovered"] = len(uncovered)
        scale = int((opts or {}).get("timeout_scale", 1))
        tmo = meta.get("timeout", 20 if tier == "quick" else 90) * scale
        # pass 1: every obligation with a short z3 budget; pass 2: cvc5 then a longer z3 budget on the
        # ones left open -- skipped once a replayed violation has settled the function
        for ob in obs:
            solve.discharge(ob, min(tmo, 6 * scale), use_cvc5=False)
        recs = {}
        confirmed = False
        n_replays = 0
        order = sorted(range(len(obs)), key=lambda q: 0 if obs[q].status == "failed" else 1)
        t_open = time.time()
        budget = (150 if tier == "quick" else 1200) * scale
        n_open_done = 0
        have_finst = False
        for q in order:
            ob = obs[q]
            if ob.status == "discharged":
                continue
            rec = {"goal": str(ob.goal)[:2000]}
            recs[q] = rec
            if ob.status == "unknown" and confirmed:
                continue
            if ob.status == "unknown" and (time.time() - t_open > budget or (have_finst and n_open_done >= 3)):
                # the time budget for open obligations of this function is spent (or a counter-model of the
                # instantiated VC is already in hand): the rest stay `unknown`
                ob.output += "; not retried (per-function budget)"
                continue
            n_open_done += 1
            # cheap first: a counter-model (the solver's, or of the finitely instantiated VC) replayed on the real code
            if n_replays < 4 and not confirmed:
                n_replays += 1
                _try_replay(ex, ob, rec)
                if rec.get("replay", {}).get("failed_on_real_code"):
                    confirmed = True
                    if ob.status == "unknown":
                        ob.status = "failed"
                        ob.output += "; refuted by concrete replay"
                    continue
            if rec.get("finst_sat"):
                have_finst = True
            if ob.status == "unknown":
                # no replayed refutation: spend the full solver budget (conjunct by conjunct, cvc5, portfolio)
                solve.discharge2(ob, tmo if not rec.get("finst_sat") else min(tmo, 10))
                if ob.status == "discharged":
                    recs.pop(q, None)
        # engine cross-check / bounded stand-in: the proved contract evaluated on the REAL function for small
        # solver-drawn inputs (one ASan harness per function); a clause false there is a violation with its input
        ncct = meta.get("cct", 10 if tier == "quick" else 150)
        all_ok = all(o.status == "discharged" for o in obs)
        if ncct and not all_ok and not any(o.status == "failed" for o in obs):
            ncct = max(ncct, 300)      # obligations left open by the solvers: look harder for a concrete counterexample
        if ncct and not all_ok:
            ncct = max(ncct, 300)      # also when a counter-model did not replay (it may describe a loop-head state that
            # no input reaches): search for a concrete input of the real function that violates the contract
        if ncct and not confirmed:
            try:
                from vf import cct
                r = cct.run(ex, n_inputs=ncct, seed=int(os.environ.get("VERIF_SEED", "0")))
                out["cct"] = {k_: v_ for k_, v_ in r.items() if k_ != "violations"}
                if out["sat_pre"] == "unknown" and r.get("evaluations", 0) > 0:
                    # vacuity guard: the solver timed out on the quantified precondition, but concrete inputs
                    # satisfying every requires clause were built and run
                    out["sat_pre"] = "sat (witnessed by %d concrete inputs)" % r["evaluations"]
                if r["violations"]:
                    v = r["violations"][0]
                    out["obligations"].append({
                        "name": "%s:%s/CONTRACT-TEST" % (fname, func), "kind": "CCT", "status": "failed",
                        "backend": "concrete-contract-test", "time_s": 0.0,
                        "output": "proved contract false on the real function for a small input: generator unsound or harness wrong",
                        "replay": v, "goal": v.get("reason")})
            except Exception as e2:
                out["cct_error"] = "%s" % e2
        if out["sat_pre"] == "unknown":
            try:
                from vf import cct
                if cct.precondition_witness(ex, seed=int(os.environ.get("VERIF_SEED", "0"))):
                    out["sat_pre"] = "sat (witnessed by a concrete heap on which every requires clause is proved)"
            except Exception as e2:
                out["cct_error"] = "%s" % e2
        for nm in out["trivial"]:
            # contract clauses the generator's simplifier reduced to `true` (e.g. a store followed by a read)
            out["obligations"].append({"name": nm + "#simplified", "kind": "POST", "status": "discharged",
                                       "backend": "z3-simplifier", "time_s": 0.0, "output": ""})
        for q, ob in enumerate(obs):
            rec = {"name": ob.name, "kind": ob.kind, "status": ob.status, "backend": ob.backend,
                   "time_s": round(ob.time, 3), "output": ob.output}
            rec.update(recs.get(q, {}))
            out["obligations"].append(rec)
    except cvc.ContractMismatch as e:
        out["error"] = "contract no longer applies: %s" % e
        out["error_kind"] = "mismatch"
        # the body no longer has the shape the loop invariants were written for: fall back to testing the
        # contract's pre/postcondition on the real function over small solver-drawn inputs (bounded)
        try:
            from vf import cct
            if ex is not None and getattr(ex, "entry", None) is not None:
                r = cct.run(ex, n_inputs=400, seed=int(os.environ.get("VERIF_SEED", "0")))
                out["cct"] = {k_: v_ for k_, v_ in r.items() if k_ != "violations"}
                if r["violations"]:
                    v = r["violations"][0]
                    out["obligations"].append({
                        "name": "%s:%s/CONTRACT-TEST" % (fname, func), "kind": "CCT", "status": "failed",
                        "backend": "concrete-contract-test", "time_s": 0.0,
                        "output": "contract clause false on the real function for a small input (bounded search)",
                        "replay": v, "goal": v.get("reason")})
                    out["error"] = None
                    out["error_kind"] = None
                    out["note"] = "contract shape mismatch (%s); decided by concrete contract testing" % e
        except Exception as e2:
            out["cct_error"] = "%s" % e2
    except cvc.Unsupported as e:
        out["error"] = "unsupported construct: %s" % e
        out["error_kind"] = "unsupported"
    except Exception as e:
        out["error"] = "checker failure: %s\n%s" % (e, traceback.format_exc())
        out["error_kind"] = "crash"
    out["wall_s"] = time.time() - t0
    return out


def _try_replay(ex, ob, rec):
    """candidate models (the solver's, else finite-instantiation ones) replayed on the real code"""
    import z3
    from vf import creplay, finst
    cands = []
    if ob.model is not None:
        cands.append(("solver", ob.model))
    try:
        fc = finst.candidates(ex, ob)
        rec["finst_sat"] = bool(fc)
        for m in fc:
            cands.append(("finite-instantiation", m))
    except Exception as e:
        rec["finst_error"] = str(e)[:300]
    last = None
    attempts = []
    rec["replay_attempts"] = attempts
    for (src, m) in cands[:6]:
        try:
            r = creplay.replay(ex, m, ob.kind)
        except Exception as e:
            r = {"failed_on_real_code": False, "error": "%s" % e, "trace": traceback.format_exc()[-800:]}
        r["model_source"] = src
        attempts.append({k_: str(v_)[:160] for k_, v_ in r.items() if k_ not in ("input", "stderr_tail", "trace")})
        last = r
        if r.get("failed_on_real_code"):
            break
    if last is not None:
        rec["replay"] = last


def _model_dict(m):
    d = {}
    for decl in m.decls():
        try:
            d[decl.name()] = str(m[decl])[:400]
        except Exception:
            pass
    return d


def run_c_functions(funcs, tier, jobs=None, opts=None):
    from vf import registry
    reg = registry.load_all()
    work = []
    for (f, g) in funcs:
        scen = reg.meta.get((f, g), {}).get("scenarios")
        if scen:
            for sc in scen:
                o = dict(opts or {})
                o["scenario"] = sc
                work.append((f, g, tier, o))
        else:
            work.append((f, g, tier, opts))
    jobs = jobs or min(16, max(1, len(work)))
    ctx = mp.get_context("fork")
    limit = 900 if tier == "quick" else 3600
    pool = ctx.Pool(jobs)
    res = []
    try:
        asyncs = [pool.apply_async(_verify_c, (w,)) for w in work]
        t_end = time.time() + limit
        for w, a in zip(work, asyncs):
            try:
                res.append(a.get(timeout=max(1.0, t_end - time.time())))
            except mp.TimeoutError:
                res.append({"file": w[0], "function": w[1], "obligations": [], "info": None, "assumptions": [],
                            "error": "no verdict within %d s (solver or generator did not return)" % limit,
                            "error_kind": "timeout", "wall_s": limit})
            except Exception as e:       # a worker died
                res.append({"file": w[0], "function": w[1], "obligations": [], "info": None, "assumptions": [],
                            "error": "checker failure: worker died: %s" % e, "error_kind": "crash", "wall_s": 0})
    finally:
        pool.terminate()
    # second look, with the machine quiet and four times the solver budget, at functions whose only open obligations
    # are solver timeouts: a timeout under load must never turn into a verdict
    if not (opts or {}).get("timeout_scale"):
        again = []
        for q, (w, r) in enumerate(zip(work, res)):
            if r.get("error_kind") == "timeout":
                continue        # the generator itself did not return: a longer solver budget does not help
            if r.get("error"):
                continue
            open_ = [o for o in r["obligations"] if o["status"] != "discharged"]
            if open_ and all(o["status"] == "unknown" for o in open_):
                again.append(q)
        if again:
            pool = ctx.Pool(min(4, len(again)))
            try:
                asyncs = []
                for q in again:
                    o = dict(work[q][3] or {})
                    o["timeout_scale"] = 4
                    asyncs.append((q, pool.apply_async(_verify_c, ((work[q][0], work[q][1], work[q][2], o),))))
                t_end = time.time() + 2 * limit
                for q, a in asyncs:
                    try:
                        r2 = a.get(timeout=max(1.0, t_end - time.time()))
                    except Exception:
                        continue
                    n1 = sum(1 for o in res[q]["obligations"] if o["status"] != "discharged") if not res[q].get("error") else 10**9
                    n2 = sum(1 for o in r2["obligations"] if o["status"] != "discharged") if not r2.get("error") else 10**9
                    if n2 <= n1:
                        r2["second_look"] = True
                        res[q] = r2
            finally:
                pool.terminate()
    for w, r in zip(work, res):
        sc = (w[3] or {}).get("scenario")
        if sc:
            r["function_label"] = "%s[%s]" % (r["function"], sc)
            for ob in r["obligations"]:
                ob["name"] = ob["name"].replace("/", "[%s]/" % sc, 1)
    return res


def load_known():
    p = os.path.join(ROOT, "known_findings.json")
    if os.path.exists(p):
        return json.load(open(p))
    return {"findings": []}


def main(argv=None):
    ap = argparse.ArgumentParser()
    ap.add_argument("prop")
    ap.add_argument("--tier", default=os.environ.get("VERIF_TIER", "quick"))
    ap.add_argument("--replay", default=None)
    ap.add_argument("--only", default=None, help="comma-separated function names (debugging)")
    ap.add_argument("--no-bounded", action="store_true")
    ap.add_argument("-v", action="store_true")
    a = ap.parse_args(argv)
    seed = int(os.environ.get("VERIF_SEED", "0"))
    t0 = time.time()
    try:
        from vf import driver
        code = driver.run_property(a.prop, a.tier, seed, a)
    except SystemExit:
        raise
    except Exception:
        traceback.print_exc()
        print("CHECKER-FAILURE property=%s" % a.prop)
        code = 3
    sys.stdout.flush()
    return code


if __name__ == "__main__":
    sys.exit(main())
