"""Concrete replay of a solver model on the real C function (E4).

A model of a failed (or undecided) obligation is turned into a concrete heap and arguments, a C harness
that #includes the real source file is generated and compiled with ASan+UBSan, the real function runs,
and every clause of its contract is re-evaluated on the concrete pre/post state.  Only a clause that
fails on the real code (or a sanitizer report) makes the replay 'failed_on_real_code'."""
import json
import math
import os
import re
import shutil
import struct
import subprocess
import tempfile
from fractions import Fraction

import z3

from . import cfront, cvc
from .cvc import Dbl, I, Ptr, Region, State, HeapView, Contract, Val, sort_of

MAXLEN = 48
UNINTERPRETED_OPS = {"fadd", "fsub", "fmul", "fdiv", "fneg", "f2i", "le2", "le4", "le8"}
UNKNOWN_TIME_BITS = 0x7FF874736B697421


class ReplayUnsupported(Exception):
    pass


def ctype_c(t):
    if t.kind == "double":
        return "double"
    if t.kind == "bool":
        return "bool"
    if t.kind == "int":
        return "%sint%d_t" % ("" if t.signed else "u", t.bits)
    if t.kind == "struct":
        return t.name
    if t.kind == "ptr":
        return ctype_c(t.to) + " *" if t.to.kind != "void" else "void *"
    raise ReplayUnsupported("C type %r" % (t,))


def mval(m, term):
    return m.eval(term, model_completion=True)


def dbl_to_py(v):
    """z3 Dbl value -> ('fin', Fraction) | 'pinf' | 'ninf' | 'nan' | 'unk'"""
    v = z3.simplify(v)
    name = v.decl().name()
    if name == "fin":
        a = z3.simplify(v.arg(0))
        if z3.is_algebraic_value(a):
            a = a.approx(20)
        return ("fin", Fraction(a.numerator_as_long(), a.denominator_as_long()))
    return name


def dbl_c(d):
    if d == "pinf":
        return "INFINITY"
    if d == "ninf":
        return "(-INFINITY)"
    if d == "nan":
        return "NAN"
    if d == "unk":
        return "vf_unknown_time()"
    f = float(d[1])
    return "%s" % float.hex(f)


def dbl_term(d):
    if isinstance(d, str):
        return getattr(Dbl, d)
    return Dbl.fin(z3.RealVal(str(d[1])))


def bits_to_dbl(b):
    if b == UNKNOWN_TIME_BITS:
        return "unk"
    f = struct.unpack("<d", struct.pack("<Q", b))[0]
    if math.isnan(f):
        return "nan"
    if math.isinf(f):
        return "pinf" if f > 0 else "ninf"
    return ("fin", Fraction(f))


class Concrete:
    """a concrete input extracted from a model"""

    def __init__(self, ex, model):
        self.ex = ex
        self.m = model
        self.regions = {}      # rid -> dict(region, length, null, fields{path: [py values]}, ptrs{path: rid|None})
        self.order = []
        self.params = []
        self.eqs = []
        # ghost/spec functions (e.g. prefix sums) keep the model's interpretation on a small domain
        for d in model.decls():
            if d.arity() == 1 and d.domain(0) == z3.IntSort() and d.range() == z3.IntSort() \
                    and d.name() not in ("f2i",):
                for q in range(-1, 10):
                    self.eqs.append(d(q) == mval(model, d(q)))
        for name in ex.params:
            v = ex.arg_vals[name]
            if isinstance(v.v, Ptr):
                self.params.append((name, v.t, self.visit_ptr(v.v)))
            elif v.t.kind == "double":
                d = dbl_to_py(mval(model, v.v))
                # make representable
                if not isinstance(d, str):
                    d = ("fin", Fraction(float(d[1])))
                self.params.append((name, v.t, d))
                self.eqs.append(v.v == dbl_term(d))
            elif v.t.kind in ("int", "bool"):
                x = mval(model, v.v)
                iv = x.as_long()
                self.params.append((name, v.t, iv))
                self.eqs.append(v.v == x)
            else:
                raise ReplayUnsupported("parameter %s of type %r" % (name, v.t))

    def visit_ptr(self, p):
        """returns None (NULL) or (rid, offset)"""
        if p.region is None:
            return None
        if p.nullc is not None:
            nv = z3.is_true(mval(self.m, p.nullc))
            self.eqs.append(p.nullc == nv)
            if nv:
                return None
        off = mval(self.m, p.off).as_long()
        if p.prefix:
            raise ReplayUnsupported("parameter pointing into a struct")
        self.visit_region(p.region)
        return (p.region.rid, off)

    def visit_region(self, r):
        if r.rid in self.regions:
            return
        if r.elem is None:
            raise ReplayUnsupported("untyped region %s" % r.name)
        ex, m = self.ex, self.m
        n = mval(m, r.length).as_long()
        if n > MAXLEN:
            raise ReplayUnsupported("region %s has length %d > %d" % (r.name, n, MAXLEN))
        if not z3.is_int_value(r.length):
            self.eqs.append(r.length == n)
        ent = {"region": r, "length": n, "fields": {}, "ptrs": {}}
        self.regions[r.rid] = ent
        leaves = ex.leaf_fields(r.elem) if r.elem.kind == "struct" else [("", r.elem)]
        if r.elem.kind == "ptr":
            # a single pointer cell (e.g. `void **column`) is followed; longer pointer arrays stay NULL / opaque
            leaves = [("", r.elem)] if n == 1 else []
        for (path, ft) in leaves:
            if ft.kind == "ptr":
                p = ex.heap0.ptrs.get((r.rid, path))
                if p is None:
                    ent["ptrs"][path] = None
                else:
                    if n != 1:
                        raise ReplayUnsupported("pointer field in array region")
                    ent["ptrs"][path] = self.visit_ptr(p)
            elif ft.kind in ("int", "bool", "double"):
                arr = ex.heap0.arrays.get((r.rid, path))
                vals = []
                for k in range(n):
                    if arr is None:
                        vals.append(0 if ft.kind != "double" else ("fin", Fraction(0)))
                        continue
                    x = mval(m, arr[k])
                    if ft.kind == "double":
                        d = dbl_to_py(x)
                        if not isinstance(d, str):
                            d = ("fin", Fraction(float(d[1])))
                        vals.append(d)
                        self.eqs.append(arr[k] == dbl_term(d))
                    else:
                        if z3.is_bv(x):
                            iv = x.as_long()
                        else:
                            iv = x.as_long()
                            lo, hi = cvc.int_range(ft)
                            if not (lo <= iv <= hi):
                                iv = max(lo, min(hi, iv))
                                x = z3.IntVal(iv)
                        vals.append(iv)
                        self.eqs.append(arr[k] == x)
                if arr is not None:
                    # the whole entry array is fixed (cells beyond the region get the same default as dumped post arrays)
                    self.eqs.append(arr == concrete_array(ft, vals))
                ent["fields"][path] = (ft, vals)
            elif ft.kind == "array" and ft.to.kind in ("int", "bool", "double"):
                continue        # embedded scalar array: left zero-initialised in the harness
            elif ft.kind in ("array", "func"):
                raise ReplayUnsupported("field %s of type %r" % (path, ft))
        self.order.append(r.rid)

    def describe(self):
        out = {"params": {}, "regions": {}}
        for (name, t, v) in self.params:
            out["params"][name] = _pv(v)
        for rid in self.order:
            e = self.regions[rid]
            out["regions"][e["region"].name] = {
                "length": e["length"],
                "fields": {p: [_pv(x) for x in vals] for p, (ft, vals) in e["fields"].items()},
                "pointers": {p: (None if v is None else self.regions[v[0]]["region"].name) for p, v in e["ptrs"].items()},
            }
        return out


def _pv(v):
    if isinstance(v, tuple) and len(v) == 2 and v[0] == "fin":
        return float(v[1])
    if isinstance(v, tuple):
        return list(v)
    return v


HARNESS_PRELUDE = r"""
#include <stdio.h>
#include <stdlib.h>
#include <string.h>
#include <math.h>
#include <stdint.h>
#include <stdbool.h>
#include <sanitizer/allocator_interface.h>
#include "%(src)s"
static double vf_unknown_time(void) { union { uint64_t u; double d; } x; x.u = 0x7FF874736B697421ULL; return x.d; }
static void vf_dump_d(const char *tag, const double *p, size_t n) {
    printf("D %%s %%zu", tag, n);
    for (size_t i = 0; i < n; i++) { union { uint64_t u; double d; } x; x.d = p[i]; printf(" %%llu", (unsigned long long) x.u); }
    printf("\n");
}
#define VF_DUMP_I(tag, p, n, T) do { printf("I %%s %%zu", tag, (size_t)(n)); for (size_t _i = 0; _i < (size_t)(n); _i++) printf(" %%lld", (long long) (p)[_i]); printf("\n"); } while (0)
"""


def gen_harness(ex, conc):
    src = cfront.cpath(ex.fname)
    L = [HARNESS_PRELUDE % {"src": src}]
    L.append("int main(void) {")
    L += gen_body(ex, conc)
    L.append("  printf(\"DONE\\n\");")
    L.append("  return 0;")
    L.append("}")
    return "\n".join(L)


def gen_harness_multi(ex, concs):
    """one program for many inputs: each runs in a forked child (crashes and sanitizer reports stay separate)"""
    src = cfront.cpath(ex.fname)
    L = [HARNESS_PRELUDE % {"src": src}, "#include <unistd.h>", "#include <sys/wait.h>"]
    for k, conc in enumerate(concs):
        L.append("static void vf_run_%d(void) {" % k)
        L += gen_body(ex, conc)
        L.append("  printf(\"DONE\\n\");")
        L.append("}")
    L.append("int main(void) {")
    L.append("  void (*fns[])(void) = {%s};" % ", ".join("vf_run_%d" % k for k in range(len(concs))))
    L.append("  for (int k = 0; k < %d; k++) {" % len(concs))
    L.append("    printf(\"BEGIN %d\\n\", k); fflush(stdout);")
    L.append("    pid_t pid = fork();")
    L.append("    if (pid == 0) { dup2(1, 2); alarm(20); fns[k](); fflush(stdout); _exit(0); }")
    L.append("    int st = 0; waitpid(pid, &st, 0);")
    L.append("    printf(\"\\nEND %d %d %d\\n\", k, WIFEXITED(st) ? WEXITSTATUS(st) : -1, WIFSIGNALED(st) ? WTERMSIG(st) : 0); fflush(stdout);")
    L.append("  }")
    L.append("  return 0;")
    L.append("}")
    return "\n".join(L)


def gen_body(ex, conc):
    L = []
    decl = []
    for rid in conc.order:
        e = conc.regions[rid]
        r = e["region"]
        ct = ctype_c(r.elem)
        n = e["length"]
        decl.append("  %s *r%d = malloc(sizeof(%s) * %d);" % (ct, rid, ct, n))
        if n:
            decl.append("  memset(r%d, 0, sizeof(%s) * %d);" % (rid, ct, n))
        decl.append("  printf(\"P r%d %%p\\n\", (void *) r%d);" % (rid, rid))
    L += decl
    for rid in conc.order:
        e = conc.regions[rid]
        for path, (ft, vals) in e["fields"].items():
            for k, v in enumerate(vals):
                acc = "r%d[%d]%s" % (rid, k, "." + path if path else "")
                if ft.kind == "double":
                    L.append("  %s = %s;" % (acc, dbl_c(v)))
                elif ft.kind == "bool":
                    L.append("  %s = %d;" % (acc, 1 if v else 0))
                else:
                    L.append("  %s = (%s) %dLL;" % (acc, ctype_c(ft), v) if ft.signed else
                             "  %s = (%s) %dULL;" % (acc, ctype_c(ft), v))
        for path, tgt in e["ptrs"].items():
            acc = "r%d[0]%s" % (rid, "." + path if path else "")
            if tgt is None:
                L.append("  %s = NULL;" % acc)
            else:
                L.append("  %s = (void *) (r%d + %d);" % (acc, tgt[0], tgt[1]))
    args = []
    for (name, t, v) in conc.params:
        if t.kind == "ptr":
            if v is None:
                args.append("NULL")
            else:
                args.append("(void *) (r%d + %d)" % v)
        elif t.kind == "double":
            args.append(dbl_c(v))
        elif t.kind == "bool":
            args.append("%d" % (1 if v else 0))
        else:
            args.append("(%s) %d%s" % (ctype_c(t), v, "LL" if t.signed else "ULL"))
    rt = ex.ret_type
    call = "%s(%s)" % (ex.func, ", ".join(args))
    L.append("  fflush(stdout);")
    if rt.kind == "void":
        L.append("  %s;" % call)
    elif rt.kind == "double":
        L.append("  double ret = %s; vf_dump_d(\"RET\", &ret, 1);" % call)
    elif rt.kind in ("int", "bool"):
        L.append("  long long ret = (long long) %s; printf(\"RET %%lld\\n\", ret);" % call)
    else:
        raise ReplayUnsupported("return type %r" % rt)
    # dump post state by walking from the roots
    for rid in conc.order:
        e = conc.regions[rid]
        r = e["region"]
        n = e["length"]
        for path, (ft, vals) in e["fields"].items():
            tag = "r%d:%s" % (rid, path or "-")
            if r.elem.kind == "struct":
                # gather into a temporary
                if ft.kind == "double":
                    L.append("  { double t_[%d]; for (int q = 0; q < %d; q++) t_[q] = r%d[q].%s; vf_dump_d(\"%s\", t_, %d); }" % (max(n, 1), n, rid, path, tag, n))
                else:
                    L.append("  { long long t_[%d]; for (int q = 0; q < %d; q++) t_[q] = (long long) r%d[q].%s; VF_DUMP_I(\"%s\", t_, %d, long long); }" % (max(n, 1), n, rid, path, tag, n))
            else:
                if ft.kind == "double":
                    L.append("  vf_dump_d(\"%s\", r%d, %d);" % (tag, rid, n))
                else:
                    L.append("  VF_DUMP_I(\"%s\", r%d, %d, long long);" % (tag, rid, n))
        for path, tgt in e["ptrs"].items():
            ft = ex.field_type(r.elem, path) if path else r.elem
            a_ = "r%d[0]%s" % (rid, "." + path if path else "")
            L.append("  printf(\"Q r%d:%s %%p %%zu\\n\", (void *) %s, %s ? (__sanitizer_get_ownership((void *) %s) ? __sanitizer_get_allocated_size((void *) %s) : (size_t) -1) : 0);" %
                     (rid, path, a_, a_, a_, a_))
            # contents of what the pointer now points to (scalar element types only)
            tt = ft.to
            if tt.kind == "void" and tgt is not None:
                tt = conc.regions[tgt[0]]["region"].elem
            if tt is not None and tt.kind in ("int", "bool", "double"):
                ct = ctype_c(tt)
                L.append("  if (%s && __sanitizer_get_ownership((void *) %s)) { size_t n_ = __sanitizer_get_allocated_size((void *) %s) / sizeof(%s); printf(\"M N:r%d:%s %%zu\\n\", n_); if (n_ > 4096) n_ = 4096;" % (a_, a_, a_, ct, rid, path))
                if tt.kind == "double":
                    L.append("    vf_dump_d(\"N:r%d:%s\", (const double *) %s, n_); }" % (rid, path, a_))
                else:
                    L.append("    VF_DUMP_I(\"N:r%d:%s\", ((%s *) %s), n_, %s); }" % (rid, path, ct, a_, ct))
    return L


def run_harness(code, workdir, timeout=60):
    cpath_ = os.path.join(workdir, "h.c")
    open(cpath_, "w").write(code)
    exe = os.path.join(workdir, "h")
    cmd = ["clang", "-g", "-O0", "-w", "-std=gnu99", "-fsanitize=address,undefined", "-fno-sanitize-recover=undefined",
           "-DNDEBUG", "-I" + cfront.CDIR, "-I" + os.path.join(cfront.CDIR, "subprojects/kastore"),
           "-I" + os.path.join(cfront.CDIR, "tskit"), cpath_, "-o", exe, "-lm"]
    # the real file may need its sibling translation units for non-static callees
    extra = []
    base = os.path.basename(cfront.cpath("tables.c"))
    p = subprocess.run(cmd, capture_output=True, text=True)
    if p.returncode != 0 and "undefined reference" in p.stderr:
        # link the other library sources
        sibs = []
        for f, rel in cfront.FILES.items():
            sibs.append(cfront.cpath(f))
        inc = [s for s in sibs if ("\"%s\"" % s) not in code]
        p = subprocess.run(cmd + inc, capture_output=True, text=True)
    if p.returncode != 0:
        raise ReplayUnsupported("harness does not compile: " + p.stderr[-1500:])
    env = dict(os.environ)
    env["ASAN_OPTIONS"] = "detect_leaks=0:abort_on_error=0:allocator_may_return_null=1"
    try:
        r = subprocess.run([exe], capture_output=True, text=True, timeout=timeout, env=env)
    except subprocess.TimeoutExpired:
        return {"timeout": True, "stdout": "", "stderr": "", "code": None}
    return {"timeout": False, "stdout": r.stdout, "stderr": r.stderr, "code": r.returncode}


def concrete_array(ft, vals, default=None):
    if ft.kind == "double":
        a = z3.K(I, Dbl.nan)
        for k, v in enumerate(vals):
            a = z3.Store(a, k, dbl_term(v))
        return a
    if ft.name == "flags":
        a = z3.K(I, z3.BitVecVal(0, ft.bits))
        for k, v in enumerate(vals):
            a = z3.Store(a, k, z3.BitVecVal(v % (1 << ft.bits), ft.bits))
        return a
    a = z3.K(I, z3.IntVal(0))
    for k, v in enumerate(vals):
        a = z3.Store(a, k, z3.IntVal(v))
    return a


def parse_dump(out):
    d = {"I": {}, "D": {}, "Q": {}, "P": {}, "M": {}, "ret": None, "done": False}
    for line in out.splitlines():
        t = line.split()
        if not t:
            continue
        if t[0] == "RET":
            d["ret"] = int(t[1])
        elif t[0] == "I":
            d["I"][t[1]] = [int(x) for x in t[3:]]
        elif t[0] == "D":
            vals = [bits_to_dbl(int(x)) for x in t[3:]]
            if t[1] == "RET":
                d["ret"] = vals[0]
            else:
                d["D"][t[1]] = vals
        elif t[0] == "Q":
            d["Q"][t[1]] = (t[2], int(t[3]))
        elif t[0] == "M":
            d["M"][t[1]] = int(t[2])
        elif t[0] == "P":
            d["P"][t[1]] = t[2]
        elif t[0] == "DONE":
            d["done"] = True
    return d


def prepare(ex, model):
    """-> (res, conc, solver): res carries 'unsupported'/'precondition_not_met' when the input cannot be used"""
    res = {"failed_on_real_code": False}
    try:
        conc = Concrete(ex, model)
    except ReplayUnsupported as e:
        res["unsupported"] = str(e)
        return res, None, None
    res["input"] = conc.describe()
    key = (ex.fname, ex.func)
    cfn, _pn = ex.registry.get(key)
    c0 = Contract(ex, key, ex.arg_vals, ex.entry)
    c0.mode = "replay"
    cfn(c0)
    s = z3.Solver()
    s.set("timeout", 20000)
    s.add(*conc.eqs)
    s.add(*ex.len_facts)
    for (nm, term) in c0._requires:
        s.push()
        s.add(z3.Not(term))
        r = s.check()
        s.pop()
        if r != z3.unsat:
            res["precondition_not_met"] = nm
            return res, None, None
    return res, conc, s


def replay(ex, model, kind_hint=None):
    """-> dict(failed_on_real_code, reason, input, observed, ...)"""
    res, conc, s = prepare(ex, model)
    if conc is None:
        return res
    wd = tempfile.mkdtemp(prefix="vf_replay_")
    try:
        try:
            code = gen_harness(ex, conc)
            run = run_harness(code, wd)
        except ReplayUnsupported as e:
            res["unsupported"] = str(e)
            return res
    finally:
        shutil.rmtree(wd, ignore_errors=True)
    return evaluate(ex, conc, s, res, run)


def replay_batch(ex, models):
    """many candidate inputs through ONE compiled harness; -> list of result dicts (same order)"""
    prepared = [prepare(ex, m) for m in models]
    idx = [k for k, (r, c, s) in enumerate(prepared) if c is not None]
    out = [r for (r, c, s) in prepared]
    if not idx:
        return out
    wd = tempfile.mkdtemp(prefix="vf_replay_")
    try:
        try:
            code = gen_harness_multi(ex, [prepared[k][1] for k in idx])
            run = run_harness(code, wd, timeout=60 + 25 * len(idx))
        except ReplayUnsupported as e:
            for k in idx:
                out[k]["unsupported"] = str(e)
            return out
    finally:
        shutil.rmtree(wd, ignore_errors=True)
    blocks = {}
    cur = None
    for line in run["stdout"].splitlines():
        if line.startswith("BEGIN "):
            cur = int(line.split()[1])
            blocks[cur] = {"lines": [], "exit": None, "sig": None}
        elif line.startswith("END ") and cur is not None:
            t = line.split()
            blocks[cur]["exit"], blocks[cur]["sig"] = int(t[2]), int(t[3])
            cur = None
        elif cur is not None:
            blocks[cur]["lines"].append(line)
    for j, k in enumerate(idx):
        b = blocks.get(j)
        if b is None:
            out[k]["unsupported"] = "no output block"
            continue
        text = "\n".join(b["lines"])
        crashed = b["exit"] != 0 or b["sig"] not in (0, None)
        one = {"timeout": b["sig"] == 14, "stdout": text, "stderr": text if ("Sanitizer" in text or "runtime error" in text or crashed) else "",
               "code": 0 if not crashed else (b["exit"] if b["exit"] not in (0, None) else -1)}
        out[k] = evaluate(ex, prepared[k][1], prepared[k][2], out[k], one)
    return out


def evaluate(ex, conc, s, res, run):
    key = (ex.fname, ex.func)
    cfn, _pn = ex.registry.get(key)
    if run["timeout"]:
        # cannot be attributed to the function under contract (a callee with an assumed contract may need more than
        # this function's precondition states): recorded, not counted as a failure
        res["inconclusive"] = "real function did not return in time on this input"
        return res
    err = run["stderr"]
    if "AddressSanitizer" in err or "runtime error" in err or (run["code"] not in (0,) and "DONE" not in run["stdout"]):
        m = re.search(r"(ERROR: AddressSanitizer[^\n]*|runtime error[^\n]*)", err)
        what = m.group(1) if m else "exit status %s" % run["code"]
        # a sanitizer report only counts when it is raised by the function under contract itself: its
        # precondition says nothing about what callees verified elsewhere (or assumed) need
        lo, hi = ex.info["lines"]
        base = os.path.basename(cfront.cpath(ex.fname))
        locs = [int(x) for x in re.findall(re.escape(base) + r":(\d+)", err)]
        first = locs[0] if locs else None
        res["sanitizer"] = what
        res["sanitizer_line"] = first
        if first is not None and lo <= first <= hi:
            res["failed_on_real_code"] = True
            res["reason"] = "sanitizer/crash on the real code at %s:%d: %s" % (base, first, what)
            res["stderr_tail"] = err[-1500:]
        else:
            res["inconclusive"] = "sanitizer report outside the function under contract (line %s)" % first
        return res
    d = parse_dump(run["stdout"])
    if not d["done"]:
        res["unsupported"] = "harness produced no DONE"
        return res
    res["observed_return"] = _pv(d["ret"]) if d["ret"] is not None else None
    # 3. concrete post state
    post = State(ex)
    for rid in conc.order:
        e = conc.regions[rid]
        r = e["region"]
        for path, (ft, vals) in e["fields"].items():
            tag = "r%d:%s" % (rid, path or "-")
            got = d["D"].get(tag) if ft.kind == "double" else d["I"].get(tag)
            if got is None:
                continue
            if ft.kind == "int" and not ft.signed:
                got = [v + (1 << 64) if v < 0 else v for v in got]      # printed through long long
                d["I"][tag] = got
            post.set_array(r, path, concrete_array(ft, got))
        for path, tgt in e["ptrs"].items():
            q = d["Q"].get("r%d:%s" % (rid, path))
            if q is None:
                continue
            addr, size = q
            ft = ex.field_type(r.elem, path) if path else r.elem
            if ft.to.kind == "void" and tgt is not None:
                ft = cfront.CType("ptr", 64, to=conc.regions[tgt[0]]["region"].elem)
            if addr in ("(nil)", "0x0", "0"):
                post.pmem[(rid, path)] = cvc.NULL
                continue
            # same region as before?
            same = None
            if tgt is not None and d["P"].get("r%d" % tgt[0]) is not None:
                base = int(d["P"]["r%d" % tgt[0]], 16)
                sz = ex.sizeof(conc.regions[tgt[0]]["region"].elem)
                if int(addr, 16) == base + tgt[1] * sz:
                    same = tgt
            if same is not None:
                post.pmem[(rid, path)] = Ptr(conc.regions[same[0]]["region"], z3.IntVal(same[1]))
                continue
            if ft.to.kind in ("int", "bool", "double") and size not in (0, (1 << 64) - 1):
                tagn = "N:r%d:%s" % (rid, path)
                got = d["D"].get(tagn) if ft.to.kind == "double" else d["I"].get(tagn)
                if got is not None and ft.to.kind == "int" and not ft.to.signed:
                    got = [v + (1 << 64) if v < 0 else v for v in got]
                if got is not None:
                    nr = Region("post:" + r.name + "." + path, ft.to, z3.IntVal(d["M"].get(tagn, len(got))))
                    post.pmem[(rid, path)] = Ptr(nr)
                    post.set_array(nr, "", concrete_array(ft.to, got))
                    continue
            # unknown target: fresh opaque region
            nr = Region("post?:" + r.name + "." + path, ft.to if ft.to.kind != "void" else None, z3.IntVal(0))
            post.pmem[(rid, path)] = Ptr(nr)
    # 4. evaluate every ensures clause and the frame on the concrete states
    c1 = Contract(ex, key, ex.arg_vals, ex.entry)
    c1.mode = "replay"
    cfn(c1)
    c1.new = HeapView(ex, post)
    rt = ex.ret_type
    if rt.kind in ("int", "bool"):
        c1.result = z3.IntVal(d["ret"])
    elif rt.kind == "double":
        c1.result = dbl_term(d["ret"])
    bad = []
    for (nm, fn) in c1._ensures:
        try:
            f = fn()
        except Exception as e:
            res.setdefault("clause_errors", []).append("%s: %s" % (nm, e))
            continue
        from .solve import _symbols
        if _symbols(f) & UNINTERPRETED_OPS:
            # the clause mentions an operation the model leaves uninterpreted (double arithmetic, byte decoding):
            # it cannot be evaluated concretely
            res.setdefault("clause_unknown", []).append(nm)
            continue
        s.push()
        s.add(z3.Not(f))
        r = s.check()
        s.pop()
        if r == z3.sat:
            bad.append(nm)
        elif r == z3.unknown:
            res.setdefault("clause_unknown", []).append(nm)
    if c1.assigns_declared:
        allowed = []
        for (ptr, fields) in c1._assigns:
            if ptr.region is not None:
                allowed.append((ptr.region.rid, ptr.prefix, None if fields is None else set(fields)))
        for rid in conc.order:
            e = conc.regions[rid]
            for path, (ft, vals) in e["fields"].items():
                if ex.assign_allowed(allowed, rid, path):
                    continue
                tag = "r%d:%s" % (rid, path or "-")
                got = d["D"].get(tag) if ft.kind == "double" else d["I"].get(tag)
                if got is not None and [_pv(x) for x in got] != [_pv(x) for x in vals] and \
                        [str(x) for x in got] != [str(x) for x in vals]:
                    bad.append("FRAME(%s.%s)" % (e["region"].name, path))
    if bad:
        res["failed_on_real_code"] = True
        res["reason"] = "contract clause(s) false on the real code's result: " + ", ".join(bad)
        res["failed_clauses"] = bad
    return res
