"""E1: verification-condition generator for a subset of C, driven by clang's typed JSON AST.

Forward symbolic execution, path enumeration, loops cut at invariants, calls replaced by contracts.
See DESIGN.md section 3 for the semantics assumed."""
import itertools
import os
import time

import z3

from . import cfront
from .cfront import CType, T_BOOL, T_DOUBLE, T_INT, T_VOID, node_type, parse_type

# ------------------------------------------------------------------------------------------
# doubles: IEEE order/equality only

_D = z3.Datatype("Dbl")
_D.declare("fin", ("val", z3.RealSort()))
_D.declare("pinf")
_D.declare("ninf")
_D.declare("nan")
_D.declare("unk")   # the NaN with tskit's unknown-time payload
Dbl = _D.create()

I = z3.IntSort()
B = z3.BoolSort()


def d_fin(x):
    return Dbl.fin(x)


def d_const(v):
    return Dbl.fin(z3.RealVal(v))


def d_isfinite(a):
    return Dbl.is_fin(a)


def d_isnan(a):
    return z3.Or(Dbl.is_nan(a), Dbl.is_unk(a))


def d_isunknown(a):
    return Dbl.is_unk(a)


def d_lt(a, b):
    return z3.And(z3.Not(d_isnan(a)), z3.Not(d_isnan(b)),
                  z3.Or(z3.And(Dbl.is_ninf(a), z3.Not(Dbl.is_ninf(b))),
                        z3.And(Dbl.is_pinf(b), z3.Not(Dbl.is_pinf(a))),
                        z3.And(Dbl.is_fin(a), Dbl.is_fin(b), Dbl.val(a) < Dbl.val(b))))


def d_eq(a, b):
    return z3.And(z3.Not(d_isnan(a)), z3.Not(d_isnan(b)), a == b)


def d_le(a, b):
    return z3.Or(d_lt(a, b), d_eq(a, b))


def d_gt(a, b):
    return d_lt(b, a)


def d_ge(a, b):
    return d_le(b, a)


def d_ne(a, b):
    return z3.Not(d_eq(a, b))


f_add = z3.Function("fadd", Dbl, Dbl, Dbl)
f_sub = z3.Function("fsub", Dbl, Dbl, Dbl)
f_mul = z3.Function("fmul", Dbl, Dbl, Dbl)
f_div = z3.Function("fdiv", Dbl, Dbl, Dbl)
f_neg = z3.Function("fneg", Dbl, Dbl)
f_toint = z3.Function("f2i", Dbl, I)


def d_neg(a):
    """exact IEEE negation on the (kind, value) model"""
    return z3.If(Dbl.is_fin(a), Dbl.fin(-Dbl.val(a)),
                 z3.If(Dbl.is_pinf(a), Dbl.ninf, z3.If(Dbl.is_ninf(a), Dbl.pinf, a)))


class Unsupported(Exception):
    pass


class ContractMismatch(Exception):
    """the contract names something (loop ordinal, local) that the code no longer has"""


# ------------------------------------------------------------------------------------------
# values

class Ptr:
    """pointer = (region, element offset, field prefix); region None = NULL."""
    __slots__ = ("region", "off", "prefix", "nullc")

    def __init__(self, region, off=None, prefix="", nullc=None):
        self.region = region
        self.off = z3.IntVal(0) if off is None else off
        self.prefix = prefix
        self.nullc = nullc  # z3 Bool "this pointer is NULL", or None when certainly non-null

    def is_null_term(self):
        if self.region is None:
            return z3.BoolVal(True)
        if self.nullc is None:
            return z3.BoolVal(False)
        return self.nullc

    def __repr__(self):
        if self.region is None:
            return "NULL"
        return "&%s[%s]%s" % (self.region.name, self.off, "." + self.prefix if self.prefix else "")


NULL = Ptr(None)


class PtrArr:
    """pointer-valued field of an array of structs whose elements all point into one region"""

    def __init__(self, region, offs, nulls):
        self.region = region
        self.offs = offs
        self.nulls = nulls
        self.writes = []


class Region:
    _ids = itertools.count(1)
    all = {}

    def __init__(self, name, elem, length, fresh=False, zero=False):
        self.rid = next(Region._ids)
        Region.all[self.rid] = self
        self.name = name
        self.elem = elem          # CType or None (untyped malloc)
        self.length = length      # z3 Int (elements)
        self.fresh = fresh        # allocated by the function under verification
        self.zero = zero
        self.bytes = None
        self.local = False

    def __repr__(self):
        return "R%d(%s)" % (self.rid, self.name)


OPAQUE = Region("opaque", None, z3.IntVal(0))


class Val:
    __slots__ = ("t", "v", "b")

    def __init__(self, t, v, b=None):
        self.t = t      # CType
        self.v = v      # z3 term (int/double) | Ptr | StructRef
        self.b = b      # z3 Bool when the int is a 0/1 truth value


class StructRef:
    def __init__(self, ptr, t):
        self.ptr = ptr
        self.t = t


def int_range(t):
    if t.kind == "bool":
        return 0, 1
    if t.signed:
        return -(1 << (t.bits - 1)), (1 << (t.bits - 1)) - 1
    return 0, (1 << t.bits) - 1


def is_bv(x):
    return z3.is_bv(x)


def to_bv(x, bits):
    if z3.is_bv(x):
        if x.size() == bits:
            return x
        if x.size() > bits:
            return z3.Extract(bits - 1, 0, x)
        return z3.ZeroExt(bits - x.size(), x)
    x = z3.simplify(x)
    if z3.is_int_value(x):
        return z3.BitVecVal(x.as_long() % (1 << bits), bits)
    return z3.Int2BV(x, bits)


def in_range(term, t):
    if z3.is_bv(term):
        return z3.BoolVal(True)
    lo, hi = int_range(t)
    return z3.And(term >= lo, term <= hi)


def wrap(term, t):
    """reduce a mathematical integer to the C type t (two's complement / modulo)."""
    if z3.is_bv(term):
        if t.name == "flags" or (t.kind == "int" and not t.signed and t.bits == term.size()):
            return to_bv(term, t.bits)      # a flags word stays a bit-vector through unsigned arithmetic
        term = z3.BV2Int(term)
    elif t.name == "flags":
        return to_bv(term, t.bits)
    term = z3.simplify(term)
    lo, hi = int_range(t)
    if z3.is_int_value(term):
        v = term.as_long()
        m = hi - lo + 1
        return z3.IntVal((v - lo) % m + lo)
    m = hi - lo + 1
    return z3.If(z3.And(term >= lo, term <= hi), term,
                 z3.If(z3.And(term > hi, term <= hi + m), term - m,
                       z3.If(z3.And(term < lo, term >= lo - m), term + m,
                             (term - lo) % m + lo)))


def sort_of(t):
    if t.kind == "double":
        return Dbl
    if t.kind == "int" and t.name == "flags":
        return z3.BitVecSort(t.bits)
    return I


# ------------------------------------------------------------------------------------------

class Obligation:
    def __init__(self, name, kind, pc, goal, where=""):
        self.name = name
        self.kind = kind
        self.pc = list(pc)
        self.goal = goal
        self.where = where
        self.status = None
        self.backend = None
        self.time = 0.0
        self.model = None
        self.output = ""


class Heap0:
    """lazily created entry heap shared by every state of one verification run"""

    def __init__(self, ex):
        self.ex = ex
        self.arrays = {}
        self.ptrs = {}
        self.range_facts = []

    def array(self, region, field, t):
        k = (region.rid, field)
        if k not in self.arrays:
            if region.zero:
                if t.kind == "double":
                    a = z3.K(I, d_const(0))
                elif t.name == "flags":
                    a = z3.K(I, z3.BitVecVal(0, t.bits))
                else:
                    a = z3.K(I, z3.IntVal(0))
            else:
                a = z3.Const("%s%s@%d" % (region.name, "." + field if field else "", region.rid),
                             z3.ArraySort(I, sort_of(t)))
            self.arrays[k] = a
        return self.arrays[k]

    def ptr(self, region, field, t):
        k = (region.rid, field)
        if k not in self.ptrs:
            if region.fresh and not region.zero:
                # uninitialised pointer in fresh memory
                nm = "%s.%s" % (region.name, field)
                r = Region(nm, t.to if t.to.kind != "void" else None, z3.Int("len(%s)" % nm))
                self.ex.len_facts.append(r.length >= 0)
                self.ptrs[k] = Ptr(r, nullc=z3.Bool("null(%s)" % nm))
            elif region.zero:
                self.ptrs[k] = NULL
            else:
                nm = "%s.%s" % (region.name, field) if field else "*" + region.name
                nm = nm.replace("*self.", "self->")
                elem = t.to
                if elem.kind == "void":
                    elem = None
                r = Region(nm, elem, z3.Int("len(%s)" % nm))
                self.ex.len_facts.append(r.length >= 0)
                self.ptrs[k] = Ptr(r, nullc=z3.Bool("null(%s)" % nm))
        return self.ptrs[k]


class State:
    def __init__(self, ex):
        self.ex = ex
        self.pc = []
        self.locals = {}
        self.mem = {}
        self.pmem = {}
        self.ghost = {}
        self.trace = []
        self._pcids = None

    def clone(self):
        s = State(self.ex)
        s.pc = list(self.pc)
        s.locals = dict(self.locals)
        s.mem = dict(self.mem)
        s.pmem = dict(self.pmem)
        s.ghost = dict(self.ghost)
        s.trace = list(self.trace)
        return s

    def assume(self, c):
        if z3.is_true(c):
            return
        self.pc.append(c)
        if self._pcids is not None:
            self._pcids.add(c.get_id())

    def pcids(self):
        if self._pcids is None or len(self._pcids) > len(self.pc):
            self._pcids = set(a.get_id() for a in self.pc)
        return self._pcids

    # memory ---------------------------------------------------------------------------
    def array(self, region, field, t):
        k = (region.rid, field)
        if k in self.mem:
            return self.mem[k]
        return self.ex.heap0.array(region, field, t)

    def set_array(self, region, field, arr):
        self.mem[(region.rid, field)] = arr

    def ptrfield(self, region, field, t):
        k = (region.rid, field)
        if k in self.pmem:
            return self.pmem[k]
        return self.ex.heap0.ptr(region, field, t)


# ------------------------------------------------------------------------------------------
# heap views used by contracts

class HeapView:
    def __init__(self, ex, state):
        self.ex = ex
        self.s = state

    def _field_type(self, ptr, field):
        t = ptr.region.elem
        path = (ptr.prefix + "." + field if ptr.prefix and field else (ptr.prefix or field))
        return self.ex.field_type(t, path), path

    def get(self, ptr, field=""):
        """value of a (possibly nested) field of the object ptr points to"""
        t, path = self._field_type(ptr, field)
        if t.kind == "ptr":
            if not _is_zero(ptr.off):
                raise Unsupported("pointer field of array element in contract")
            return self.s.ptrfield(ptr.region, path, t)
        if t.kind == "struct":
            return Ptr(ptr.region, ptr.off, path, ptr.nullc)
        if t.kind == "array":
            return Ptr(ptr.region, ptr.off, path, ptr.nullc)
        v = self.s.array(ptr.region, path, t)[ptr.off]
        self._range_fact(v, t)
        return v

    def _range_fact(self, v, t):
        """every C object of an integer type holds a value of that type"""
        if t.kind in ("int", "bool") and not z3.is_bv(v):
            key = v.get_id()
            if key not in self.ex.range_seen:
                self.ex.range_seen.add(key)
                self.ex.len_facts.append(in_range(v, t))

    def sub(self, ptr, field):
        """pointer to an embedded struct field"""
        path = (ptr.prefix + "." + field) if ptr.prefix else field
        return Ptr(ptr.region, ptr.off, path, ptr.nullc)

    def arr(self, ptr, field=""):
        t, path = self._field_type(ptr, field)
        return self.s.array(ptr.region, path, t)

    def at(self, ptr, i, field=""):
        t, path = self._field_type(ptr, field)
        return self.s.array(ptr.region, path, t)[ptr.off + i]

    def len(self, ptr):
        return ptr.region.length - ptr.off

    def isnull(self, ptr):
        return ptr.is_null_term()

    def local(self, name):
        return self.ex.local_by_name(self.s, name)

    def ghost(self, name):
        return self.s.ghost[name]


def _is_one(t):
    t = z3.simplify(t) if not isinstance(t, int) else t
    return (isinstance(t, int) and t == 1) or (z3.is_int_value(t) and t.as_long() == 1)


def _is_zero(t):
    t = z3.simplify(t) if not isinstance(t, int) else t
    return (isinstance(t, int) and t == 0) or (z3.is_int_value(t) and t.as_long() == 0)


class LoopSpec:
    def __init__(self):
        self.invs = []
        self.extra_modifies = []
        self.ghost_updates = []
        self.unroll = None

    def invariant(self, fn, name=None):
        self.invs.append((name or "inv%d" % len(self.invs), fn))
        return self


class Contract:
    """One evaluation of a contract function against a call frame."""

    def __init__(self, ex, fn_key, args, old_state):
        self.ex = ex
        self.key = fn_key
        self.args = args
        self.old = HeapView(ex, old_state)
        self.new = None
        self.result = None
        self._requires = []
        self._ensures = []
        self._assigns = []
        self._loops = {}
        self._ghost_init = {}
        self._ptr_sets = []
        self.scenario = ex.opts.get("scenario")
        self.mode = "verify"
        self.assigns_declared = False
        self.notes = []
        self.assumptions = []
        self.inline = False
        self.E = ex.errs

    def arg(self, name):
        if name not in self.args:
            raise ContractMismatch("parameter %s of %s" % (name, self.key))
        v = self.args[name]
        return v.v if isinstance(v, Val) else v

    def requires(self, term, name=None):
        self._requires.append((name or "pre%d" % len(self._requires), term))

    def ensures(self, fn, name=None):
        self._ensures.append((name or "post%d" % len(self._ensures), fn))

    def assigns(self, ptr=None, fields=None):
        self.assigns_declared = True
        if ptr is not None:
            self._assigns.append((ptr, fields))

    def loop(self, k):
        if k not in self._loops:
            self._loops[k] = LoopSpec()
        return self._loops[k]

    def ghost(self, name, term):
        self._ghost_init[name] = term

    def alias(self, p, field, q, qfield):
        """verify under the aliasing assumption  p->field == q->qfield  (entry heap); no effect at call sites"""
        if self.mode == "call":
            return
        t = self.ex.field_type(q.region.elem, (q.prefix + "." + qfield) if q.prefix else qfield)
        tgt = self.ex.heap0.ptr(q.region, (q.prefix + "." + qfield) if q.prefix else qfield, t)
        self.ex.heap0.ptrs[(p.region.rid, (p.prefix + "." + field) if p.prefix else field)] = tgt

    def sets_ptr(self, p, field, target):
        """at a call site: after the call p->field holds `target` (a Ptr)"""
        self._ptr_sets.append((p, field, target))

    def assume_note(self, text):
        self.assumptions.append(text)


# ------------------------------------------------------------------------------------------

class Signal:
    def __init__(self, kind, arg=None):
        self.kind = kind
        self.arg = arg


class Exec:
    def __init__(self, fname, func, registry, errs, consts=None, opts=None):
        self.fname = fname
        self.func = func
        self.registry = registry
        self.errs = errs
        self.opts = opts or {}
        for bt in self.opts.get("bv_types", []):
            cfront.BV_TYPES.add(bt)
        self.ast, self.info = cfront.extract_function(fname, func)
        self.layouts = cfront.record_layouts(fname)
        self.heap0 = Heap0(self)
        self.len_facts = []
        self.obligations = []
        self.ob_names = {}
        self.ob_seen = set()
        self.file_consts = {}
        self.range_seen = set()
        self.trivial = []
        self.loop_counter = 0
        self.call_counter = 0
        self.covers = {}
        self.fresh_ctr = itertools.count()
        self.decl_names = {}
        self.mem_locals = set()
        self.exits = []
        self.assumptions = []
        self.unsupported = None
        self.solver_time = 0.0
        self.inline_depth = 0
        self.max_paths = self.opts.get("max_paths", 4000)
        self.npaths = 0
        self.prune = self.opts.get("prune", True)
        self.written_log = None

    # -- helpers -----------------------------------------------------------------------
    def fresh(self, name, sort=I):
        return z3.Const("%s!%d" % (name, next(self.fresh_ctr)), sort)

    def field_type(self, t, path):
        """type of (possibly nested, possibly empty) field path of struct type t"""
        if not path:
            return t
        cur = t
        for f in path.split("."):
            if cur.kind != "struct":
                raise Unsupported("field %s of non-struct %r" % (path, t))
            rec = self.layouts.get(cur.name)
            if rec is None:
                raise Unsupported("no layout for struct %s" % cur.name)
            for (fn, ft, _off) in rec["fields"]:
                if fn == f:
                    cur = parse_type(ft)
                    break
            else:
                raise Unsupported("no field %s in %s" % (f, cur.name))
        return cur

    def leaf_fields(self, t, prefix=""):
        """[(path, ctype)] of every scalar / pointer leaf of struct type t"""
        if t.kind != "struct":
            return [(prefix, t)]
        rec = self.layouts.get(t.name)
        if rec is None:
            raise Unsupported("no layout for struct %s" % t.name)
        out = []
        for (fn, ft, _off) in rec["fields"]:
            p = prefix + "." + fn if prefix else fn
            ft = parse_type(ft)
            if ft.kind == "struct":
                out.extend(self.leaf_fields(ft, p))
            else:
                out.append((p, ft))
        return out

    def sizeof(self, t):
        return cfront.sizeof_type(t, self.layouts)

    def oblige(self, st, kind, goal, where="", name=None, depth=0):
        if False and depth < 2 and z3.is_and(goal) and kind in ("POST", "INV_INIT", "INV_PRESERVE", "PRE"):
            # one obligation per conjunct: smaller queries, and the failing clause is named
            base = name or "%s@%s" % (kind, where)
            for q, ch in enumerate(goal.children()):
                self.oblige(st, kind, ch, where, name="%s.%d" % (base, q), depth=depth + 1)
            return
        goal = z3.simplify(goal) if not z3.is_quantifier(goal) else goal
        if z3.is_true(goal):
            base = name or "%s@%s" % (kind, where)
            self.ob_names.setdefault(base, 0)
            if kind in ("POST", "INV_INIT", "INV_PRESERVE", "PRE", "FRAME"):
                self.trivial.append("%s:%s/%s" % (self.fname, self.func, base))
            return
        base = name or "%s@%s" % (kind, where)
        gid = goal.get_id()
        if gid in st.pcids():
            return      # already established (asserted earlier on this path and then assumed)
        key = (gid, tuple(sorted(st.pcids())))
        if key in self.ob_seen:
            st.assume(goal)
            return
        self.ob_seen.add(key)
        n = self.ob_names.get(base, 0)
        self.ob_names[base] = n + 1
        nm = "%s:%s/%s#%d" % (self.fname, self.func, base, n)
        self.obligations.append(Obligation(nm, kind, self.len_facts + st.pc, goal, where))
        st.assume(goal)

    def wrap_in(self, st, term, t):
        """wrap(term, t), dropping the modular reduction when the quantifier-free path facts already imply
        that the mathematical value is representable (keeps the VCs free of dead `If` towers)"""
        if z3.is_bv(term) or t.name == "flags" or not self.opts.get("elide_wrap"):
            return wrap(term, t)
        term = z3.simplify(term)
        if z3.is_int_value(term):
            return wrap(term, t)
        if _nonlinear(term):
            return wrap(term, t)
        s = z3.Solver()
        s.set("timeout", 300)
        for a in self.len_facts:
            if not has_quantifier(a) and not _nonlinear(a):
                s.add(a)
        for a in st.pc:
            if not has_quantifier(a) and not _nonlinear(a):
                s.add(a)
        s.add(z3.Not(in_range(term, t)))
        t0 = time.time()
        r = s.check()
        self.solver_time += time.time() - t0
        if r == z3.unsat:
            return term
        return wrap(term, t)

    def feasible(self, st, extra=None):
        if not self.prune:
            return True
        s = z3.Solver()
        s.set("timeout", 2000)
        for a in self.len_facts:
            if not has_quantifier(a) and not _nonlinear(a):
                s.add(a)
        for a in st.pc:
            if not has_quantifier(a) and not _nonlinear(a):
                s.add(a)
        if extra is not None:
            s.add(extra)
        t0 = time.time()
        r = s.check()
        self.solver_time += time.time() - t0
        return r != z3.unsat

    def local_by_name(self, st, name):
        ids = self.decl_names.get(name)
        if not ids:
            raise ContractMismatch("local %s of %s" % (name, self.func))
        for i in reversed(ids):
            if i in st.locals:
                v = st.locals[i]
                if isinstance(v, Val):
                    return v.v
                # memory local
                ptr, t = v
                if t.kind in ("struct", "array"):
                    return ptr
                return self.load(st, ptr, t, where="contract").v
        raise ContractMismatch("local %s not live" % name)

    # -- memory ------------------------------------------------------------------------
    def check_access(self, st, ptr, where):
        if ptr.region is None:
            self.oblige(st, "NONNULL", z3.BoolVal(False), where)
            raise PathEnd()
        if ptr.nullc is not None:
            self.oblige(st, "NONNULL", z3.Not(ptr.nullc), where)
        self.oblige(st, "BOUNDS", z3.And(ptr.off >= 0, ptr.off < ptr.region.length), where)

    def load(self, st, ptr, t, where="", check=True):
        if check:
            self.check_access(st, ptr, where)
        if t.kind in ("struct", "array"):
            return Val(t, StructRef(ptr, t))
        if t.kind == "ptr":
            if not (ptr.region.local or _is_zero(ptr.off)):
                return Val(t, self.load_ptr_family(st, ptr, t))
            return Val(t, st.ptrfield(ptr.region, ptr.prefix, t))
        if t.kind == "func":
            raise Unsupported("function pointer load")
        arr = st.array(ptr.region, ptr.prefix, t)
        v = arr[ptr.off]
        if t.kind in ("int", "bool"):
            st.assume(in_range(v, t))
        return Val(t, v)

    def load_ptr_family(self, st, ptr, t):
        """pointer stored in an array element: supported when every element points into ONE region"""
        cur = st.pmem.get((ptr.region.rid, ptr.prefix))
        if cur is None:
            if ptr.region.zero:
                return NULL
            raise Unsupported("load of pointer from array element %r" % (ptr,))
        if isinstance(cur, PtrArr):
            for (ix, pv) in reversed(cur.writes):
                if ix.eq(ptr.off) or z3.is_true(z3.simplify(ix == ptr.off)):
                    return pv           # the pointer stored at this very index on this path
                break
            return Ptr(cur.region, cur.offs[ptr.off], "", cur.nulls[ptr.off])
        raise Unsupported("load of pointer from array element %r" % (ptr,))

    def store(self, st, ptr, t, val, where="", check=True):
        if check:
            self.check_access(st, ptr, where)
        if self.written_log is not None:
            self.written_log.add((ptr.region, ptr.prefix, t.kind))
        if t.kind == "struct":
            src = val.v.ptr
            for (path, ft) in self.leaf_fields(t):
                sp = Ptr(src.region, src.off, (src.prefix + "." + path) if src.prefix else path)
                dp = Ptr(ptr.region, ptr.off, (ptr.prefix + "." + path) if ptr.prefix else path)
                v = self.load(st, sp, ft, check=False)
                self.store(st, dp, ft, v, check=False)
            return
        if t.kind == "ptr":
            if not (ptr.region.local or _is_zero(ptr.off)) or isinstance(st.pmem.get((ptr.region.rid, ptr.prefix)), PtrArr):
                cur = st.pmem.get((ptr.region.rid, ptr.prefix))
                tgt = val.v
                if cur is None:
                    cur = PtrArr(tgt.region, z3.K(I, z3.IntVal(0)), z3.K(I, z3.BoolVal(True)))
                if not isinstance(cur, PtrArr):
                    raise Unsupported("store of pointer into array element over a scalar pointer %r" % (ptr,))
                if tgt.region is not None and cur.region is not None and cur.region is not tgt.region:
                    reg = OPAQUE        # elements point into different regions: contents no longer tracked
                else:
                    reg = cur.region if cur.region is not None else tgt.region
                npa = PtrArr(reg, z3.Store(cur.offs, ptr.off, tgt.off),
                             z3.Store(cur.nulls, ptr.off, tgt.is_null_term()))
                npa.writes = [(ptr.off, tgt)]
                st.pmem[(ptr.region.rid, ptr.prefix)] = npa
                return
            st.pmem[(ptr.region.rid, ptr.prefix)] = val.v
            return
        arr = st.array(ptr.region, ptr.prefix, t)
        st.set_array(ptr.region, ptr.prefix, z3.Store(arr, ptr.off, val.v))

    def new_region(self, name, elem, length, fresh=True, zero=False):
        r = Region(name, elem, length, fresh=fresh, zero=zero)
        return r

    # -- expressions -------------------------------------------------------------------
    def to_bool(self, v):
        if v.b is not None:
            return v.b
        if v.t.kind == "ptr":
            return z3.Not(v.v.is_null_term())
        if v.t.kind == "double":
            return z3.Not(d_eq(v.v, d_const(0)))
        if z3.is_bv(v.v):
            return v.v != z3.BitVecVal(0, v.v.size())
        return v.v != 0

    def from_bool(self, b):
        b = z3.simplify(b)
        return Val(T_INT, z3.If(b, z3.IntVal(1), z3.IntVal(0)), b)

    def lvalue(self, st, n):
        """-> ('local', declid, ctype) | ('mem', Ptr, ctype)"""
        k = n["kind"]
        if k == "ParenExpr":
            return self.lvalue(st, n["inner"][0])
        if k == "DeclRefExpr":
            d = n["referencedDecl"]
            did = d["id"]
            if did in st.locals:
                v = st.locals[did]
                if isinstance(v, Val):
                    return ("local", did, v.t)
                return ("mem", v[0], v[1])
            return self.global_lvalue(st, d, n)
        if k == "MemberExpr":
            base = n["inner"][0]
            t = node_type(n)
            name = n["name"]
            if n.get("isArrow"):
                p = self.rvalue(st, base).v
                if not isinstance(p, Ptr):
                    raise Unsupported("-> on non-pointer")
            else:
                lv = self.lvalue(st, base)
                if lv[0] != "mem":
                    raise Unsupported("member of non-memory struct")
                p = lv[1]
            if p.region is None:
                self.oblige(st, "NONNULL", z3.BoolVal(False), self.where(n))
                raise PathEnd()
            np_ = Ptr(p.region, p.off, (p.prefix + "." + name) if p.prefix else name, p.nullc)
            return ("mem", np_, t)
        if k == "ArraySubscriptExpr":
            base = self.rvalue(st, n["inner"][0])
            idx = self.rvalue(st, n["inner"][1])
            t = node_type(n)
            p = base.v
            if not isinstance(p, Ptr):
                raise Unsupported("subscript of non-pointer")
            if p.region is None:
                self.oblige(st, "NONNULL", z3.BoolVal(False), self.where(n))
                raise PathEnd()
            self.type_region(p, t)
            return ("mem", self.ptr_add(p, idx.v, t), t)
        if k == "UnaryOperator" and n["opcode"] == "*":
            p = self.rvalue(st, n["inner"][0]).v
            t = node_type(n)
            if not isinstance(p, Ptr):
                raise Unsupported("* of non-pointer")
            if p.region is None:
                self.oblige(st, "NONNULL", z3.BoolVal(False), self.where(n))
                raise PathEnd()
            self.type_region(p, t)
            return ("mem", p, t)
        raise Unsupported("lvalue kind " + k)

    def global_lvalue(self, st, d, n):
        raise Unsupported("global variable %s" % d.get("name"))

    def type_region(self, p, t):
        r = p.region
        if r is not None and r.elem is None and t.kind != "void":
            r.elem = t
            if r.bytes is not None:
                sz = self.sizeof(t)
                r.length_term_bytes = r.bytes
                # length was created as a symbol; constrain it
                self.len_facts.append(r.length == r.bytes / sz)

    def ptr_add(self, p, k, t=None):
        if p.prefix and p.region.elem is not None and p.region.elem.kind == "struct":
            ft = self.field_type(p.region.elem, p.prefix)
            if ft.kind == "array":
                # pointer into an embedded fixed array: flatten index into the field name space
                raise Unsupported("embedded array arithmetic")
            if not _is_zero(k):
                raise Unsupported("pointer arithmetic on field pointer")
        return Ptr(p.region, z3.simplify(p.off + k), p.prefix, p.nullc)

    def where(self, n):
        loc = n.get("range", {}).get("begin", {})
        loc = loc.get("expansionLoc", loc)
        ln = loc.get("line")
        if ln is not None:
            self._last_line = ln
        if getattr(self, "_last_line", None) is None:
            return "+?"
        return "+%d" % (self._last_line - self.info["lines"][0])

    def read_lvalue(self, st, lv, where=""):
        if lv[0] == "local":
            return st.locals[lv[1]]
        return self.load(st, lv[1], lv[2], where)

    def write_lvalue(self, st, lv, val, where=""):
        if lv[2].kind == "int" and lv[2].name == "flags" and not isinstance(val.v, (Ptr, StructRef)) \
                and not z3.is_bv(val.v):
            val = Val(lv[2], to_bv(val.v, lv[2].bits))
        if lv[0] == "local":
            st.locals[lv[1]] = Val(lv[2], val.v, val.b if lv[2].kind in ("int", "bool") else None)
        else:
            self.store(st, lv[1], lv[2], val, where)

    def cast_int(self, st, v, t, explicit=False):
        """integer conversion C99 6.3.1.3"""
        if t.kind == "bool":
            return Val(T_BOOL, z3.If(self.to_bool(v), z3.IntVal(1), z3.IntVal(0)), self.to_bool(v))
        if v.t.kind in ("int", "bool"):
            if z3.is_bv(v.v) or t.name == "flags":
                return Val(t, wrap(v.v, t))
            slo, shi = int_range(v.t)
            lo, hi = int_range(t)
            if slo >= lo and shi <= hi:
                return Val(t, v.v, v.b)
            return Val(t, wrap(v.v, t))
        if v.t.kind == "double":
            # double -> int: UB when out of range; value uninterpreted otherwise
            return Val(t, wrap(f_toint(v.v), t))
        raise Unsupported("cast to int from %r" % v.t)

    def rvalue(self, st, n):
        k = n["kind"]
        w = self.where(n)
        if k in ("ParenExpr", "ConstantExpr"):
            return self.rvalue(st, n["inner"][0])
        if k == "_BoolToInt":
            return self.from_bool(self.to_bool(self.rvalue(st, n["inner"][0])))
        if k == "IntegerLiteral":
            return Val(node_type(n), z3.IntVal(int(n["value"])))
        if k == "CharacterLiteral":
            return Val(node_type(n), z3.IntVal(int(n["value"])))
        if k == "FloatingLiteral":
            from fractions import Fraction
            fr = Fraction(float(n["value"]))
            return Val(T_DOUBLE, Dbl.fin(z3.RealVal(str(fr))))
        if k == "StringLiteral":
            raw = n.get("value", '""')
            import ast as _ast
            try:
                s = _ast.literal_eval(raw)
            except Exception:
                s = raw.strip('"')
            bs = s.encode("latin-1", "replace") + b"\0"
            r = self.new_region("str%d" % next(self.fresh_ctr), parse_type("char"), z3.IntVal(len(bs)))
            arr = z3.K(I, z3.IntVal(0))
            for i, c in enumerate(bs):
                arr = z3.Store(arr, i, c if c < 128 else c - 256)
            st.set_array(r, "", arr)
            return Val(parse_type("char *"), Ptr(r))
        if k == "ImplicitCastExpr" or k == "CStyleCastExpr":
            return self.cast(st, n)
        if k == "DeclRefExpr":
            d = n["referencedDecl"]
            if d["kind"] == "EnumConstantDecl":
                return Val(T_INT, z3.IntVal(self.enum_value(d)))
            if d["kind"] == "FunctionDecl":
                return Val(CType("func", name=d["name"]), d["name"])
            return self.read_lvalue(st, self.lvalue(st, n), w)
        if k in ("MemberExpr", "ArraySubscriptExpr"):
            return self.read_lvalue(st, self.lvalue(st, n), w)
        if k == "UnaryOperator":
            return self.unary(st, n)
        if k == "BinaryOperator":
            return self.binary(st, n)
        if k == "CompoundAssignOperator":
            return self.compound_assign(st, n)
        if k == "ConditionalOperator":
            raise NeedFork(n)
        if k == "CallExpr":
            return self.call(st, n)
        if k == "UnaryExprOrTypeTraitExpr":
            if n.get("name") != "sizeof":
                raise Unsupported(n.get("name"))
            if "argType" in n:
                t = parse_type(n["argType"].get("desugaredQualType") or n["argType"]["qualType"])
                if t.kind == "struct" and t.name not in self.layouts:
                    t = parse_type(n["argType"]["qualType"])
            else:
                t = node_type(n["inner"][0])
            return Val(node_type(n), z3.IntVal(self.sizeof(t)))
        if k == "InitListExpr":
            raise Unsupported("InitListExpr")
        if k == "PredefinedExpr":
            return Val(parse_type("char *"), Ptr(self.new_region("func", parse_type("char"), z3.IntVal(64))))
        raise Unsupported("expr kind " + k)

    def enum_value(self, d):
        v = self.opts.get("enums", {}).get(d["name"])
        if v is None:
            raise Unsupported("enum constant " + d["name"])
        return v

    def cast(self, st, n):
        ck = n.get("castKind")
        sub = n["inner"][-1]
        t = node_type(n)
        if ck == "LValueToRValue":
            return self.read_lvalue(st, self.lvalue(st, sub), self.where(n))
        if ck in ("NoOp",):
            v = self.rvalue(st, sub)
            return Val(t if t.kind != "void" else v.t, v.v, v.b)
        if ck == "IntegralCast":
            return self.cast_int(st, self.rvalue(st, sub), t)
        if ck == "IntegralToBoolean":
            v = self.rvalue(st, sub)
            b = self.to_bool(v)
            return Val(T_BOOL, z3.If(b, z3.IntVal(1), z3.IntVal(0)), b)
        if ck == "PointerToBoolean":
            v = self.rvalue(st, sub)
            b = self.to_bool(v)
            return Val(T_BOOL, z3.If(b, z3.IntVal(1), z3.IntVal(0)), b)
        if ck == "FloatingToBoolean":
            v = self.rvalue(st, sub)
            b = self.to_bool(v)
            return Val(T_BOOL, z3.If(b, z3.IntVal(1), z3.IntVal(0)), b)
        if ck == "IntegralToFloating":
            v = self.rvalue(st, sub)
            return Val(T_DOUBLE, Dbl.fin(z3.ToReal(v.v)))
        if ck == "FloatingCast":
            v = self.rvalue(st, sub)
            return Val(T_DOUBLE, v.v)
        if ck == "FloatingToIntegral":
            v = self.rvalue(st, sub)
            return self.cast_int(st, v, t)
        if ck == "NullToPointer":
            return Val(t, NULL)
        if ck == "BitCast":
            v = self.rvalue(st, sub)
            if isinstance(v.v, Ptr) and t.kind == "ptr":
                opaque = t.to.kind == "ptr" and t.to.to is not None and t.to.to.kind == "void" \
                    and v.v.region is not None and v.v.region.elem is not None and v.v.region.elem.kind != "ptr"
                if v.v.region is not None and t.to.kind not in ("void",) and not opaque:
                    self.type_region(v.v, t.to)
                    self.check_cast_compat(v.v, t.to)
                return Val(t, v.v)
            return Val(t, v.v)
        if ck == "ArrayToPointerDecay":
            lv = self.lvalue(st, sub) if sub["kind"] != "StringLiteral" else None
            if lv is None:
                return self.rvalue(st, sub)
            if lv[0] != "mem":
                raise Unsupported("array decay of non-memory")
            p = lv[1]
            at = lv[2]
            if p.prefix:
                # embedded fixed array: model as its own sub-region keyed by the path
                return Val(t, self.embedded_array(st, p, at))
            return Val(t, p)
        if ck == "FunctionToPointerDecay":
            return self.rvalue(st, sub)
        if ck == "ToVoid":
            self.rvalue(st, sub)
            return Val(T_VOID, None)
        if ck == "IntegralToPointer":
            v = self.rvalue(st, sub)
            if _is_zero(v.v):
                return Val(t, NULL)
            raise Unsupported("int to pointer")
        if ck == "PointerToIntegral":
            raise Unsupported("pointer to int")
        raise Unsupported("cast kind %s" % ck)

    def check_cast_compat(self, p, t):
        e = p.region.elem
        if e is None or t.kind == "void":
            return
        if p.prefix:
            return
        if e.kind == t.kind and (e.kind != "struct" or e.name == t.name) and (e.kind != "int" or e.bits == t.bits):
            return
        if e.kind in ("int", "bool") and t.kind in ("int", "bool") and e.bits == t.bits:
            return
        raise Unsupported("reinterpreting region %s of %r as %r" % (p.region.name, e, t))

    def embedded_array(self, st, p, at):
        key = ("emb", p.region.rid, p.prefix)
        if not _is_zero(p.off):
            raise Unsupported("embedded array in array element")
        r = self.heap0.ptrs.get(key)
        if r is None:
            reg = Region("%s.%s" % (p.region.name, p.prefix), at.to, z3.IntVal(at.n), fresh=p.region.fresh,
                         zero=p.region.zero)
            reg.local = p.region.local
            reg.embedded_of = (p.region.rid, p.prefix)
            r = Ptr(reg)
            self.heap0.ptrs[key] = r
        return r

    def unary(self, st, n):
        op = n["opcode"]
        sub = n["inner"][0]
        t = node_type(n)
        w = self.where(n)
        if op == "!":
            v = self.rvalue(st, sub)
            return self.from_bool(z3.Not(self.to_bool(v)))
        if op == "-":
            v = self.rvalue(st, sub)
            if t.kind == "double":
                return Val(t, z3.simplify(d_neg(v.v)))
            r = -v.v
            if t.signed:
                self.oblige(st, "OVERFLOW", in_range(r, t), w)
                return Val(t, z3.simplify(r))
            return Val(t, wrap(r, t))
        if op == "+":
            return self.rvalue(st, sub)
        if op == "~":
            v = self.rvalue(st, sub)
            if z3.is_bv(v.v):
                return Val(t, ~v.v)
            if t.signed:
                return Val(t, -v.v - 1)
            return Val(t, ((1 << t.bits) - 1) - v.v)
        if op == "*":
            return self.read_lvalue(st, self.lvalue(st, n), w)
        if op == "&":
            lv = self.lvalue(st, sub)
            if lv[0] != "mem":
                raise Unsupported("address of register local")
            return Val(t, lv[1])
        if op in ("++", "--"):
            lv = self.lvalue(st, sub)
            old = self.read_lvalue(st, lv, w)
            d = 1 if op == "++" else -1
            if t.kind == "ptr":
                nv = Val(t, self.ptr_add(old.v, z3.IntVal(d)))
            else:
                r = old.v + d
                if z3.is_bv(old.v):
                    nv = Val(t, old.v + z3.BitVecVal(d % (1 << old.v.size()), old.v.size()))
                elif t.signed and t.bits >= 32:
                    self.oblige(st, "OVERFLOW", in_range(r, t), w)
                    nv = Val(t, z3.simplify(r))
                else:
                    # narrower than int: computed in int, converted back (implementation-defined wrap, not UB)
                    nv = Val(t, self.wrap_in(st, r, t))
            self.write_lvalue(st, lv, nv, w)
            return old if n.get("isPostfix") else nv
        raise Unsupported("unary " + op)

    def arith(self, st, op, a, b, t, w):
        """integer or double arithmetic on rvalues a, b with result type t"""
        if t.kind == "double":
            fa, fb = a.v, b.v
            f = {"+": f_add, "-": f_sub, "*": f_mul, "/": f_div}.get(op)
            if f is None:
                raise Unsupported("double op " + op)
            return Val(t, f(fa, fb))
        x, y = a.v, b.v
        if z3.is_bv(x) or z3.is_bv(y):
            bits = x.size() if z3.is_bv(x) else y.size()
            bx, by = to_bv(x, bits), to_bv(y, bits)
            if op == ">>":
                r = z3.LShR(bx, by)
            elif op in ("/", "%"):
                self.oblige(st, "DIV0", by != 0, w)
                r = z3.UDiv(bx, by) if op == "/" else z3.URem(bx, by)
            else:
                r = {"+": bx + by, "-": bx - by, "*": bx * by, "&": bx & by, "|": bx | by, "^": bx ^ by,
                     "<<": bx << by}[op]
            return Val(t, z3.simplify(r))
        if op in ("+", "-", "*"):
            r = {"+": x + y, "-": x - y, "*": x * y}[op]
            if t.signed:
                self.oblige(st, "OVERFLOW", in_range(r, t), w)
                return Val(t, z3.simplify(r))
            return Val(t, self.wrap_in(st, r, t))
        if op in ("/", "%"):
            self.oblige(st, "DIV0", y != 0, w)
            if t.signed:
                # C truncates toward zero
                q = z3.If(z3.And(x >= 0, y > 0), x / y,
                          z3.If(z3.And(x < 0, y > 0), -((-x) / y),
                                z3.If(z3.And(x >= 0, y < 0), -(x / (-y)), (-x) / (-y))))
                if op == "/":
                    self.oblige(st, "OVERFLOW", in_range(q, t), w)
                    return Val(t, z3.simplify(q))
                return Val(t, z3.simplify(x - q * y))
            if op == "/":
                return Val(t, z3.simplify(x / y))
            return Val(t, z3.simplify(x % y))
        if op in ("&", "|", "^"):
            return Val(t, self.bitop(op, x, y, t))
        if op == "<<":
            if z3.is_int_value(z3.simplify(y)):
                k = z3.simplify(y).as_long()
                r = x * (1 << k)
                if t.signed:
                    self.oblige(st, "OVERFLOW", in_range(r, t), w)
                    return Val(t, z3.simplify(r))
                return Val(t, wrap(r, t))
            if self.opts.get("bv_types") and not t.signed:
                # bit-set code: keep the shifted word a bit-vector (shift amount checked against the width)
                self.oblige(st, "SHIFT", z3.And(y >= 0, y < t.bits), w)
                return Val(t, to_bv(x, t.bits) << to_bv(y, t.bits))
            return Val(t, self.shift_var(st, x, y, t, w, left=True))
        if op == ">>":
            if z3.is_int_value(z3.simplify(y)):
                k = z3.simplify(y).as_long()
                return Val(t, z3.simplify(x / (1 << k)))
            return Val(t, self.shift_var(st, x, y, t, w, left=False))
        raise Unsupported("binary " + op)

    def shift_var(self, st, x, y, t, w, left):
        self.oblige(st, "SHIFT", z3.And(y >= 0, y < t.bits), w)
        p = pow2(y, t.bits)
        if left:
            r = x * p
            if t.signed:
                self.oblige(st, "OVERFLOW", in_range(r, t), w)
                return r
            return wrap(r, t)
        return x / p

    def bitop(self, op, x, y, t):
        x = z3.simplify(x)
        y = z3.simplify(y)
        if z3.is_int_value(x) and z3.is_int_value(y):
            a, b = x.as_long(), y.as_long()
            m = (1 << t.bits) - 1
            r = {"&": a & b, "|": a | b, "^": a ^ b}[op] & m
            if t.signed and r >= (1 << (t.bits - 1)):
                r -= (1 << t.bits)
            return z3.IntVal(r)
        if z3.is_int_value(x) and not z3.is_int_value(y):
            x, y = y, x
        if z3.is_int_value(y) and t.signed and op == "&" and 0 <= y.as_long() < (1 << (t.bits - 1)):
            # two's complement bit k of a signed x is floor(x / 2^k) mod 2 (z3 div/mod are Euclidean)
            c = y.as_long()
            bits = [k for k in range(t.bits - 1) if (c >> k) & 1]
            if len(bits) <= 16:
                return z3.Sum([z3.If(bit(x, k), z3.IntVal(1 << k), z3.IntVal(0)) for k in bits]) if bits else z3.IntVal(0)
        if z3.is_int_value(y) and not t.signed:
            c = y.as_long()
            bits = [k for k in range(t.bits) if (c >> k) & 1]
            if len(bits) <= 16:
                if op == "&":
                    return z3.Sum([z3.If(bit(x, k), z3.IntVal(1 << k), z3.IntVal(0)) for k in bits]) if bits else z3.IntVal(0)
                if op == "|":
                    return x + z3.Sum([z3.If(bit(x, k), z3.IntVal(0), z3.IntVal(1 << k)) for k in bits]) if bits else x
                if op == "^":
                    return x + z3.Sum([z3.If(bit(x, k), z3.IntVal(-(1 << k)), z3.IntVal(1 << k)) for k in bits]) if bits else x
        # general case through bit-vectors
        bx = z3.Int2BV(x, t.bits)
        by = z3.Int2BV(y, t.bits)
        r = {"&": bx & by, "|": bx | by, "^": bx ^ by}[op]
        return z3.BV2Int(r, is_signed=t.signed)

    def binary(self, st, n):
        op = n["opcode"]
        L, R = n["inner"]
        t = node_type(n)
        w = self.where(n)
        if op == "=":
            lv = self.lvalue(st, L)
            v = self.rvalue(st, R)
            self.write_lvalue(st, lv, v, w)
            return v
        if op == ",":
            self.rvalue(st, L)
            return self.rvalue(st, R)
        if op in ("&&", "||"):
            raise NeedFork(n)
        a = self.rvalue(st, L)
        b = self.rvalue(st, R)
        if op in ("==", "!=", "<", "<=", ">", ">="):
            if a.t.kind == "double" or b.t.kind == "double":
                f = {"==": d_eq, "!=": d_ne, "<": d_lt, "<=": d_le, ">": d_gt, ">=": d_ge}[op]
                return self.from_bool(f(a.v, b.v))
            if isinstance(a.v, Ptr) or isinstance(b.v, Ptr):
                return self.from_bool(self.ptr_cmp(st, op, a.v, b.v))
            x, y = a.v, b.v
            if z3.is_bv(x) or z3.is_bv(y):
                bits = x.size() if z3.is_bv(x) else y.size()
                x, y = to_bv(x, bits), to_bv(y, bits)
                c = {"==": x == y, "!=": x != y, "<": z3.ULT(x, y), "<=": z3.ULE(x, y), ">": z3.UGT(x, y),
                     ">=": z3.UGE(x, y)}[op]
                return self.from_bool(c)
            c = {"==": x == y, "!=": x != y, "<": x < y, "<=": x <= y, ">": x > y, ">=": x >= y}[op]
            return self.from_bool(c)
        if isinstance(a.v, Ptr) or isinstance(b.v, Ptr):
            if op == "+":
                p, k = (a, b) if isinstance(a.v, Ptr) else (b, a)
                return Val(t, self.ptr_add(p.v, k.v))
            if op == "-":
                if isinstance(b.v, Ptr):
                    if a.v.region is not b.v.region:
                        raise Unsupported("difference of pointers into different regions")
                    return Val(t, z3.simplify(a.v.off - b.v.off))
                return Val(t, self.ptr_add(a.v, -b.v))
            raise Unsupported("pointer op " + op)
        return self.arith(st, op, a, b, t, w)

    def ptr_cmp(self, st, op, p, q):
        if not isinstance(p, Ptr) or not isinstance(q, Ptr):
            raise Unsupported("pointer compared with integer")
        if op in ("==", "!="):
            if q.region is None:
                e = p.is_null_term()
            elif p.region is None:
                e = q.is_null_term()
            elif p.region is q.region:
                e = z3.And(p.off == q.off, z3.BoolVal(p.prefix == q.prefix))
                if p.nullc is not None:
                    e = z3.Or(z3.And(p.nullc, q.is_null_term()), e)
            else:
                e = z3.And(p.is_null_term(), q.is_null_term())
            return e if op == "==" else z3.Not(e)
        if p.region is not q.region:
            raise Unsupported("ordering of pointers into different regions")
        x, y = p.off, q.off
        return {"<": x < y, "<=": x <= y, ">": x > y, ">=": x >= y}[op]

    def compound_assign(self, st, n):
        op = n["opcode"][:-1]
        L, R = n["inner"]
        w = self.where(n)
        lv = self.lvalue(st, L)
        old = self.read_lvalue(st, lv, w)
        rhs = self.rvalue(st, R)
        lt = lv[2]
        if lt.kind == "ptr":
            nv = Val(lt, self.ptr_add(old.v, rhs.v if op == "+" else -rhs.v))
        else:
            ct = parse_type(n["computeResultType"].get("desugaredQualType") or n["computeResultType"]["qualType"]) \
                if "computeResultType" in n else lt
            if ct.kind == "double":
                a = old if old.t.kind == "double" else Val(T_DOUBLE, Dbl.fin(z3.ToReal(old.v)))
                b = rhs if rhs.t.kind == "double" else Val(T_DOUBLE, Dbl.fin(z3.ToReal(rhs.v)))
                r = self.arith(st, op, a, b, ct, w)
                nv = r if lt.kind == "double" else self.cast_int(st, r, lt)
            else:
                a = self.cast_int(st, old, ct)
                r = self.arith(st, op, a, rhs, ct, w)
                nv = self.cast_int(st, r, lt)
        self.write_lvalue(st, lv, nv, w)
        return nv

    # -- calls -------------------------------------------------------------------------
    def callee_name(self, n):
        f = n["inner"][0]
        while f["kind"] in ("ImplicitCastExpr", "ParenExpr"):
            f = f["inner"][0]
        if f["kind"] == "DeclRefExpr" and f["referencedDecl"]["kind"] == "FunctionDecl":
            return f["referencedDecl"]["name"], f["referencedDecl"]
        return None, None

    def call(self, st, n):
        from . import builtins
        name, decl = self.callee_name(n)
        w = self.where(n)
        t = node_type(n)
        if name is None:
            raise Unsupported("indirect call")
        argnodes = n["inner"][1:]
        if name in builtins.TABLE:
            return builtins.TABLE[name](self, st, n, argnodes, t, w)
        key = self.registry.find(name)
        if key is None:
            raise Unsupported("call to %s without contract" % name)
        args = [self.rvalue(st, a) for a in argnodes]
        return self.call_contract(st, key, name, args, t, w)

    def call_contract(self, st, key, name, args, t, w):
        cfn, pnames = self.registry.get_call(key)
        self.call_counter += 1
        argmap = {}
        for i, a in enumerate(args):
            argmap[pnames[i] if i < len(pnames) else "arg%d" % i] = a
        old = st.clone()
        c = Contract(self, key, argmap, old)
        c.mode = "call"
        cfn(c)
        for (nm, term) in c._requires:
            self.oblige(st, "PRE", term, w, name="PRE(%s.%s)@%s" % (name, nm, w))
        # havoc assigns
        for (ptr, fields) in c._assigns:
            self.havoc_region(st, ptr, fields)
        for (p_, f_, tgt) in c._ptr_sets:
            st.pmem[(p_.region.rid, (p_.prefix + "." + f_) if p_.prefix else f_)] = tgt
        res = None
        if t.kind in ("int", "bool"):
            res = self.fresh("ret_" + name, sort_of(t))
            st.assume(in_range(res, t))
        elif t.kind == "double":
            res = self.fresh("ret_" + name, Dbl)
        elif t.kind == "ptr":
            raise Unsupported("contract call returning pointer")
        c.new = HeapView(self, st)
        c.result = res
        for (nm, fn) in c._ensures:
            st.assume(fn())
        self.assumptions.extend(c.assumptions)
        return Val(t, res)

    def havoc_region(self, st, ptr, fields):
        r = ptr.region
        if r is None:
            return
        if self.written_log is not None:
            self.written_log.add((r, "*" if fields is None else tuple(fields), "havoc"))
        elem = r.elem
        if elem is None:
            raise Unsupported("havoc of untyped region")
        if fields is None:
            leaves = self.leaf_fields(elem, ptr.prefix) if elem.kind == "struct" else [("", elem)]
            if elem.kind == "struct" and ptr.prefix:
                leaves = self.leaf_fields(self.field_type(elem, ptr.prefix), ptr.prefix)
        else:
            leaves = []
            for f in fields:
                p = (ptr.prefix + "." + f) if ptr.prefix else f
                ft = self.field_type(elem, p)
                if ft.kind == "struct":
                    leaves.extend(self.leaf_fields(ft, p))
                else:
                    leaves.append((p, ft))
        for (path, ft) in leaves:
            if ft.kind == "ptr":
                nm = "%s.%s!%d" % (r.name, path, next(self.fresh_ctr))
                nr = Region(nm, ft.to if ft.to.kind != "void" else None, z3.Int("len(%s)" % nm))
                nr.fresh = True     # a pointer (re)assigned by a callee: memory owned by the object, not the frame
                self.len_facts.append(nr.length >= 0)
                st.pmem[(r.rid, path)] = Ptr(nr, nullc=z3.Bool("null(%s)" % nm))
            elif ft.kind in ("int", "bool", "double"):
                st.set_array(r, path, self.fresh("%s.%s" % (r.name, path), z3.ArraySort(I, sort_of(ft))))
            elif ft.kind == "array":
                pass
            else:
                raise Unsupported("havoc of field type %r" % ft)

    # -- statements --------------------------------------------------------------------
    def exec_block(self, states, stmts):
        """states: list of State; returns list of (State, Signal|None)."""
        active = list(states)
        pending = []
        for s in stmts:
            if s.get("kind") == "LabelStmt":
                lab = s["name"]
                keep = []
                for (ps, sig) in pending:
                    if sig.kind == "goto" and sig.arg == lab:
                        active.append(ps)
                    else:
                        keep.append((ps, sig))
                pending = keep
                if not active:
                    continue
                out = self.exec_stmt(active, s["inner"][0])
            else:
                if not active:
                    continue
                out = self.exec_stmt(active, s)
            active = []
            for (ns, sig) in out:
                if sig is None:
                    active.append(ns)
                else:
                    pending.append((ns, sig))
        return [(s, None) for s in active] + pending

    def fork_expr(self, st, n, cont):
        """evaluate expression n in st, forking on && || ?: ; cont(state, Val) -> list of results"""
        try:
            st2 = st.clone()
            v = self.rvalue(st2, n)
            return cont(st2, v)
        except NeedFork as nf:
            return self.fork_on(st, n, nf.node, cont)

    def fork_on(self, st, root, node, cont):
        """node is a && / || / ?: inside root. Evaluate its condition, fork, substitute."""
        results = []
        if node["kind"] == "ConditionalOperator":
            cnode, a, b = node["inner"]
            alts = [(True, a), (False, b)]
        else:
            cnode = node["inner"][0]
            alts = None

        def after_cond(s1, cv):
            out = []
            bc = self.to_bool(cv)
            for truth in (True, False):
                s2 = s1.clone()
                cond = bc if truth else z3.Not(bc)
                cond = z3.simplify(cond)
                if z3.is_false(cond):
                    continue
                s2.assume(cond)
                if not self.feasible(s2):
                    continue
                if alts is not None:
                    repl = alts[0][1] if truth else alts[1][1]
                else:
                    op = node["opcode"]
                    if (op == "&&" and not truth):
                        repl = {"kind": "IntegerLiteral", "value": "0", "type": {"qualType": "int"}}
                    elif (op == "||" and truth):
                        repl = {"kind": "IntegerLiteral", "value": "1", "type": {"qualType": "int"}}
                    else:
                        repl = {"kind": "ImplicitCastExpr", "castKind": "IntegralToBoolean",
                                "type": {"qualType": "int"}, "inner": [node["inner"][1]], "_asint": True}
                        repl = {"kind": "_BoolToInt", "inner": [node["inner"][1]], "type": {"qualType": "int"}}
                new_root = _subst(root, node, repl)
                out.extend(self.fork_expr(s2, new_root, cont))
            return out
        # NOTE: sub-expressions of root evaluated before `node` are re-evaluated after the fork; this is
        # only sound because side-effecting sub-expressions are not mixed with && || ?: in the subset
        if _has_side_effect_before(root, node):
            raise Unsupported("side effect combined with short-circuit operator")
        return self.fork_expr(st, cnode, after_cond)

    def exec_stmt(self, states, s):
        out = []
        for st in states:
            self.npaths += 1
            if self.npaths > self.max_paths:
                raise Unsupported("path explosion (> %d)" % self.max_paths)
            try:
                out.extend(self.exec_stmt1(st, s))
            except PathEnd:
                pass
        return out

    def exec_stmt1(self, st, s):
        k = s.get("kind")
        if k is None:
            return [(st, None)]
        if k == "CompoundStmt":
            return self.exec_block([st], s.get("inner", []))
        if k == "NullStmt":
            return [(st, None)]
        if k == "DeclStmt":
            cur = [st]
            for d in s["inner"]:
                nxt = []
                for c in cur:
                    nxt.extend(self.exec_decl(c, d))
                cur = nxt
            return [(c, None) for c in cur]
        if k == "IfStmt":
            inner = s["inner"]
            cond, then = inner[0], inner[1]
            els = inner[2] if len(inner) > 2 else None

            def cont(s1, cv):
                res = []
                bc = z3.simplify(self.to_bool(cv))
                for truth, body in ((True, then), (False, els)):
                    c = bc if truth else z3.simplify(z3.Not(bc))
                    if z3.is_false(c):
                        continue
                    s2 = s1.clone()
                    s2.assume(c)
                    if not self.feasible(s2):
                        continue
                    self.covers[(id(s), truth)] = True
                    if body is None:
                        res.append((s2, None))
                    else:
                        res.extend(self.exec_stmt([s2], body))
                return res
            self.covers.setdefault((id(s), True), False)
            return self.fork_expr(st, cond, cont)
        if k in ("ForStmt", "WhileStmt", "DoStmt"):
            return self.exec_loop(st, s)
        if k == "ReturnStmt":
            if s.get("inner"):
                def cont(s1, v):
                    return [(s1, Signal("return", v))]
                return self.fork_expr(st, s["inner"][0], cont)
            return [(st, Signal("return", None))]
        if k == "GotoStmt":
            lab = self.labels.get(s["targetLabelDeclId"])
            return [(st, Signal("goto", lab))]
        if k == "BreakStmt":
            return [(st, Signal("break"))]
        if k == "ContinueStmt":
            return [(st, Signal("continue"))]
        if k == "LabelStmt":
            return self.exec_stmt([st], s["inner"][0])
        # expression statement
        return self.fork_expr(st, s, lambda s1, v: [(s1, None)])

    def exec_decl(self, st, d):
        if d["kind"] != "VarDecl":
            return [st]
        t = node_type(d)
        did = d["id"]
        name = d["name"]
        self.decl_names.setdefault(name, [])
        if did not in self.decl_names[name]:
            self.decl_names[name].append(did)
        init = d["inner"][0] if d.get("inner") and "init" in d else None
        if t.kind in ("struct", "array") or did in self.mem_locals:
            if t.kind == "array":
                r = self.new_region(name, t.to, z3.IntVal(t.n))
            else:
                r = self.new_region(name, t, z3.IntVal(1))
            r.local = True
            ptr = Ptr(r)
            st.locals[did] = (ptr, t)
            if init is not None:
                if init["kind"] == "InitListExpr":
                    return self.init_list(st, ptr, t, init)

                def cont(s1, v):
                    self.store(s1, ptr, t, v, check=False)
                    return [s1]
                return self.fork_expr(st, init, cont)
            return [st]
        if init is None:
            # uninitialised scalar: arbitrary value of its type
            if t.kind == "ptr":
                st.locals[did] = Val(t, Ptr(Region("uninit_" + name, None, z3.IntVal(0)),
                                            nullc=self.fresh("uninit_null_" + name, B)))
            elif t.kind == "double":
                st.locals[did] = Val(t, self.fresh("uninit_" + name, Dbl))
            else:
                v = self.fresh("uninit_" + name, sort_of(t))
                st.assume(in_range(v, t))
                st.locals[did] = Val(t, v)
            return [st]

        def cont2(s1, v):
            s1.locals[did] = Val(t, v.v, v.b if t.kind in ("int", "bool") else None)
            return [s1]
        return self.fork_expr(st, init, cont2)

    def init_list(self, st, ptr, t, init):
        # only zero-initialisers / full scalar lists for arrays
        if t.kind == "array":
            elems = init.get("inner", [])
            arr = z3.K(I, d_const(0) if t.to.kind == "double" else z3.IntVal(0))
            for i, e in enumerate(elems):
                if e["kind"] == "ImplicitValueInitExpr":
                    continue
                v = self.rvalue(st, e)
                arr = z3.Store(arr, i, v.v)
            st.set_array(ptr.region, "", arr)
            return [st]
        raise Unsupported("struct initialiser list")

    # loops -----------------------------------------------------------------------------
    def exec_loop(self, st, s):
        k = s["kind"]
        ordinal = self.loop_ids.get(id(s))
        if k == "ForStmt":
            init, _cv, cond, inc, body = s["inner"]
        elif k == "WhileStmt":
            init, inc = None, None
            cond, body = s["inner"]
        else:
            body, cond = s["inner"]
            init, inc = None, None
            if _is_const_zero(cond):
                # do { ... } while (0): macro idiom, not a loop
                res = []
                for (ns, sig) in self.exec_stmt([st], body):
                    if sig is not None and sig.kind in ("break", "continue"):
                        sig = None
                    res.append((ns, sig))
                return res
            raise Unsupported("do-while loop")
        states = [st]
        if init and init.get("kind"):
            r = self.exec_stmt([st], init)
            states = [x for (x, sig) in r if sig is None]
        spec = self.contract._loops.get(ordinal) if self.contract is not None else None
        if spec is None:
            raise ContractMismatch("loop %s of %s has no invariant" % (ordinal, self.func))
        self.used_loops.add(ordinal)
        results = []
        for s0 in states:
            results.extend(self.loop_from(s0, s, ordinal, spec, cond, inc, body))
        return results

    def loop_from(self, s0, s, ordinal, spec, cond, inc, body):
        tag = "loop%d" % ordinal
        # 1. invariant holds on entry
        for (nm, fn) in spec.invs:
            self.oblige(s0, "INV_INIT", fn(LoopView(self, s0)), tag, name="INV_INIT(%s.%s)" % (tag, nm))
        # 2. find what the body modifies (dry run to a fixpoint)
        mod_locals = set()
        _assigned_locals(body, mod_locals)
        if inc and inc.get("kind"):
            _assigned_locals(inc, mod_locals)
        _assigned_locals(cond, mod_locals)
        mod_mem = set()
        rid_limit = max(Region.all) if Region.all else 0
        for _round in range(4):
            probe = self.havoc_loop_state(s0, mod_locals, mod_mem)
            saved = (self.obligations, self.ob_names, self.exits, self.written_log, self.npaths,
                     dict(self.covers))
            saved_seen = self.ob_seen
            self.ob_seen = set()
            self.obligations, self.ob_names, self.exits = [], {}, []
            self.written_log = set()
            old_prune, self.prune = self.prune, False
            try:
                def contp(s1, cv):
                    s1.assume(self.to_bool(cv))
                    return [(s1, None)]
                ent = [x for (x, _sg) in self.fork_expr(probe, cond, contp)] if cond.get("kind") else [probe]
                r = self.exec_stmt(ent, body)
                if inc and inc.get("kind"):
                    self.exec_stmt([x for (x, sg) in r if sg is None or sg.kind == "continue"], inc)
            finally:
                log = self.written_log
                self.prune = old_prune
                (self.obligations, self.ob_names, self.exits, self.written_log, self.npaths, cov) = saved
                self.ob_seen = saved_seen
                self.covers = cov
            new = set()
            for (reg, pref, kind) in log:
                if reg.rid > rid_limit:
                    continue        # allocated inside the iteration itself: not loop-carried state
                new.add((reg, pref, kind))
            if self.written_log is not None:
                self.written_log |= new
            if new <= mod_mem:
                break
            mod_mem |= new
        else:
            raise Unsupported("loop modifies set did not stabilise")
        # 3. arbitrary iteration
        h = self.havoc_loop_state(s0, mod_locals, mod_mem)
        lv = LoopView(self, h, entry=s0)
        for (nm, fn) in spec.invs:
            h.assume(fn(lv))
        results = []

        def cont(s1, cv):
            res = []
            bc = z3.simplify(self.to_bool(cv))
            # exit
            sx = s1.clone()
            sx.assume(z3.simplify(z3.Not(bc)))
            if not z3.is_true(bc) and self.feasible(sx):
                res.append((sx, None))
            sb = s1.clone()
            sb.assume(bc)
            if z3.is_false(bc) or not self.feasible(sb):
                self.covers[("loopbody", ordinal)] = self.covers.get(("loopbody", ordinal), False)
                return res
            self.covers[("loopbody", ordinal)] = True
            r = self.exec_stmt([sb], body)
            cont_states = []
            for (ns, sig) in r:
                if sig is None or sig.kind == "continue":
                    cont_states.append(ns)
                elif sig.kind == "break":
                    res.append((ns, None))
                else:
                    res.append((ns, sig))
            if inc and inc.get("kind") and cont_states:
                r2 = self.exec_stmt(cont_states, inc)
                cont_states = [x for (x, sg) in r2]
            for ns in cont_states:
                lv2 = LoopView(self, ns, entry=s0)
                for (nm, fn) in spec.invs:
                    self.oblige(ns, "INV_PRESERVE", fn(lv2), tag, name="INV_PRESERVE(%s.%s)" % (tag, nm))
            return res
        if cond.get("kind"):
            results = self.fork_expr(h, cond, cont)
        else:
            results = cont(h, self.from_bool(z3.BoolVal(True)))
        return results

    def havoc_loop_state(self, s0, mod_locals, mod_mem):
        h = s0.clone()
        for did in mod_locals:
            if did in h.locals and isinstance(h.locals[did], Val):
                t = h.locals[did].t
                nm = self.decl_name_of(did)
                if t.kind == "ptr":
                    p = h.locals[did].v
                    if p.region is None:
                        # pointer assigned in the loop: unsupported unless stays in region
                        raise Unsupported("pointer local %s assigned in loop from NULL" % nm)
                    h.locals[did] = Val(t, Ptr(p.region, self.fresh(nm + "_off"), p.prefix, p.nullc))
                elif t.kind == "double":
                    h.locals[did] = Val(t, self.fresh(nm, Dbl))
                else:
                    v = self.fresh(nm, sort_of(t))
                    h.assume(in_range(v, t))
                    h.locals[did] = Val(t, v)
        for (reg, pref, kind) in mod_mem:
            if kind == "havoc":
                self.havoc_region(h, Ptr(reg), None if pref == "*" else list(pref))
                continue
            if kind == "ptr":
                if not reg.local and (reg.length is None or not _is_one(reg.length)):
                    h.pmem[(reg.rid, pref)] = PtrArr(OPAQUE, self.fresh("offs", z3.ArraySort(I, I)),
                                                     self.fresh("nulls", z3.ArraySort(I, B)))
                    continue
                if reg.local:
                    cur = h.pmem.get((reg.rid, pref))
                    if cur is not None and cur.region is not None:
                        h.pmem[(reg.rid, pref)] = Ptr(cur.region, self.fresh("off"), cur.prefix, cur.nullc)
                        continue
                raise Unsupported("pointer field %s.%s written in loop" % (reg.name, pref))
            t = self.field_type(reg.elem, pref) if reg.elem is not None and reg.elem.kind == "struct" else reg.elem
            h.set_array(reg, pref, self.fresh("%s.%s" % (reg.name, pref), z3.ArraySort(I, sort_of(t))))
        return h

    def decl_name_of(self, did):
        for nm, ids in self.decl_names.items():
            if did in ids:
                return nm
        return "v"

    # -- driver ------------------------------------------------------------------------
    def run(self):
        fn = self.ast
        params = [c for c in fn.get("inner", []) if c.get("kind") == "ParmVarDecl"]
        body = [c for c in fn.get("inner", []) if c.get("kind") == "CompoundStmt"][0]
        self.labels = {}
        self.loop_ids = {}
        _index(body, self.labels, self.loop_ids, [0])
        _addr_taken(body, self.mem_locals)
        st = State(self)
        args = {}
        for p in params:
            t = node_type(p)
            name = p.get("name", "_")
            self.decl_names.setdefault(name, []).append(p["id"])
            if t.kind == "ptr":
                elem = t.to if t.to.kind != "void" else None
                single = elem is not None and elem.kind == "struct"
                ln = z3.IntVal(1) if single and not self.opts.get("array_params", {}).get(name) else z3.Int("len(%s)" % name)
                r = Region(name, elem, ln)
                if not z3.is_int_value(ln):
                    self.len_facts.append(ln >= 0)
                v = Val(t, Ptr(r, nullc=z3.Bool("null(%s)" % name)))
            elif t.kind == "double":
                v = Val(t, z3.Const(name, Dbl))
            elif t.kind in ("int", "bool"):
                x = z3.Const(name, sort_of(t))
                st.assume(in_range(x, t))
                v = Val(t, x)
            elif t.kind == "func":
                v = Val(t, name)
            else:
                raise Unsupported("parameter type %r" % t)
            args[name] = v
            if p["id"] in self.mem_locals:
                rr = self.new_region("&" + name, t, z3.IntVal(1))
                rr.local = True
                st.locals[p["id"]] = (Ptr(rr), t)
                self.store(st, Ptr(rr), t, v, check=False)
            else:
                st.locals[p["id"]] = v
        self.params = [p.get("name", "_") for p in params]
        self.arg_vals = args
        entry = st.clone()
        key = (self.fname, self.func)
        cfn, _pn = self.registry.get(key)
        c = Contract(self, key, args, entry)
        c.mode = "verify"
        self.contract = c
        self.used_loops = set()
        cfn(c)
        for (nm, term) in c._requires:
            st.assume(term)
        for g, term in c._ghost_init.items():
            st.ghost[g] = term
        self.pre_pc = self.len_facts + list(st.pc)
        self.entry = entry
        rt = node_type({"type": {"qualType": fn["type"]["qualType"].split("(")[0].strip()}})
        self.ret_type = rt
        out = self.exec_block([st], body.get("inner", []))
        nexit = 0
        for (fs, sig) in out:
            if sig is None:
                rv = None
            elif sig.kind == "return":
                rv = sig.arg
            else:
                raise Unsupported("dangling %s" % sig.kind)
            nexit += 1
            c.new = HeapView(self, fs)
            c.result = rv.v if rv is not None else None
            for (nm, fnn) in c._ensures:
                self.oblige(fs, "POST", fnn(), "exit", name="POST(%s)" % nm)
            if c.assigns_declared:
                self.check_frame(fs, c)
        for k_ in c._loops:
            if k_ not in self.used_loops:
                raise ContractMismatch("contract names loop %s which was not reached/exists" % k_)
        self.nexits = nexit
        self.assumptions.extend(c.assumptions)
        return self.obligations

    def check_frame(self, fs, c):
        allowed = []
        for (ptr, fields) in c._assigns:
            if ptr.region is None:
                continue
            allowed.append((ptr.region.rid, ptr.prefix, None if fields is None else set(fields)))
        for (rid, field), arr in fs.mem.items():
            reg = self.region_by_id(rid)
            if reg is None or reg.fresh or reg.local:
                continue
            if self.assign_allowed(allowed, rid, field):
                continue
            emb = getattr(reg, "embedded_of", None)
            if emb is not None and self.assign_allowed(allowed, emb[0], emb[1]):
                continue
            init = self.heap0.arrays.get((rid, field))
            if init is None or init.eq(arr):
                continue
            self.oblige(fs, "FRAME", arr == init, "exit", name="FRAME(%s.%s)" % (reg.name, field))
        for (rid, field), p in fs.pmem.items():
            reg = self.region_by_id(rid)
            if reg is None or reg.fresh or reg.local:
                continue
            if self.assign_allowed(allowed, rid, field):
                continue
            init = self.heap0.ptrs.get((rid, field))
            if init is p:
                continue
            same = init is not None and init.region is p.region
            self.oblige(fs, "FRAME", z3.BoolVal(bool(same)) if not same else p.off == init.off, "exit",
                        name="FRAME(%s.%s)" % (reg.name, field))

    def assign_allowed(self, allowed, rid, field):
        for (arid, pref, fields) in allowed:
            if arid != rid:
                continue
            if fields is None:
                if not pref or field == pref or field.startswith(pref + "."):
                    return True
            else:
                for f in fields:
                    full = (pref + "." + f) if pref else f
                    if field == full or field.startswith(full + "."):
                        return True
        return False

    def region_by_id(self, rid):
        return Region.all.get(rid)


class LoopView(HeapView):
    def __init__(self, ex, state, entry=None):
        HeapView.__init__(self, ex, state)
        self.entry = HeapView(ex, entry if entry is not None else state)
        self.old = HeapView(ex, ex.entry) if hasattr(ex, "entry") else None

    def v(self, name):
        return self.local(name)

    def __getattr__(self, name):
        if name.startswith("_"):
            raise AttributeError(name)
        return self.local(name)


class PathEnd(Exception):
    pass


class NeedFork(Exception):
    def __init__(self, node):
        self.node = node


_nl_cache = {}


def _nonlinear(t):
    """contains a product / division / modulus of two non-constant terms (z3 may ignore its timeout there)"""
    k = t.get_id()
    r = _nl_cache.get(k)
    if r is not None:
        return r
    seen = set()
    stack = [t]
    r = False
    while stack:
        x = stack.pop()
        xi = x.get_id()
        if xi in seen:
            continue
        seen.add(xi)
        if z3.is_quantifier(x):
            stack.append(x.body())
            continue
        if z3.is_app(x):
            kd = x.decl().kind()
            if kd in (z3.Z3_OP_MUL, z3.Z3_OP_IDIV, z3.Z3_OP_MOD, z3.Z3_OP_DIV, z3.Z3_OP_REM):
                nc = [c for c in x.children() if not z3.is_int_value(c) and not z3.is_rational_value(c)]
                if len(nc) >= 2 or (kd != z3.Z3_OP_MUL and not z3.is_int_value(x.children()[1])):
                    r = True
                    break
            stack.extend(x.children())
    _nl_cache[k] = r
    return r


_hq_cache = {}


def has_quantifier(t):
    """does the term contain a quantifier (memoised on the z3 ast id)"""
    k = t.get_id()
    r = _hq_cache.get(k)
    if r is not None:
        return r
    seen = set()
    stack = [t]
    r = False
    while stack:
        x = stack.pop()
        xi = x.get_id()
        if xi in seen:
            continue
        seen.add(xi)
        if z3.is_quantifier(x):
            r = True
            break
        stack.extend(x.children())
    _hq_cache[k] = r
    return r


def pow2(y, bits):
    e = z3.IntVal(1 << (bits - 1))
    for k in range(bits - 2, -1, -1):
        e = z3.If(y == k, z3.IntVal(1 << k), e)
    return e


def bit(x, k):
    return (x / (1 << k)) % 2 == 1


def _is_const_zero(n):
    while n.get("kind") in ("ParenExpr", "ImplicitCastExpr", "ConstantExpr"):
        n = n["inner"][0]
    return n.get("kind") == "IntegerLiteral" and n.get("value") == "0"


def _subst(root, target, repl):
    if root is target:
        return repl
    if not isinstance(root, dict) or "inner" not in root:
        return root
    new_inner = []
    changed = False
    for c in root["inner"]:
        nc = _subst(c, target, repl)
        if nc is not c:
            changed = True
        new_inner.append(nc)
    if not changed:
        return root
    r = dict(root)
    r["inner"] = new_inner
    return r


def _has_side_effect_before(root, node):
    """is there a side-effecting sub-expression of root evaluated before reaching node?"""
    found = [False]
    se = [False]

    def walk(n):
        if found[0]:
            return
        if n is node:
            found[0] = True
            return
        k = n.get("kind")
        for c in n.get("inner", []):
            if isinstance(c, dict):
                walk(c)
                if found[0]:
                    return
        if k in ("CallExpr", "CompoundAssignOperator") or (k == "BinaryOperator" and n.get("opcode") == "=") or \
                (k == "UnaryOperator" and n.get("opcode") in ("++", "--")):
            name = None
            if k == "CallExpr":
                f = n["inner"][0]
                while f.get("kind") in ("ImplicitCastExpr", "ParenExpr"):
                    f = f["inner"][0]
                name = f.get("referencedDecl", {}).get("name")
            if name in ("tsk_isfinite", "tsk_isnan", "tsk_is_unknown_time", "isfinite", "isnan"):
                return
            se[0] = True
    walk(root)
    return se[0]


def _index(n, labels, loops, ctr):
    if not isinstance(n, dict):
        return
    k = n.get("kind")
    if k == "LabelStmt":
        labels[n["declId"]] = n["name"]
    if k in ("ForStmt", "WhileStmt") or (k == "DoStmt" and not _is_const_zero(n["inner"][1])):
        loops[id(n)] = ctr[0]
        ctr[0] += 1
    for c in n.get("inner", []):
        _index(c, labels, loops, ctr)


def _addr_taken(n, out):
    if not isinstance(n, dict):
        return
    if n.get("kind") == "UnaryOperator" and n.get("opcode") == "&":
        t = n["inner"][0]
        while t.get("kind") == "ParenExpr":
            t = t["inner"][0]
        if t.get("kind") == "DeclRefExpr" and t["referencedDecl"]["kind"] in ("VarDecl", "ParmVarDecl"):
            out.add(t["referencedDecl"]["id"])
    for c in n.get("inner", []):
        _addr_taken(c, out)


def _assigned_locals(n, out):
    if not isinstance(n, dict):
        return
    k = n.get("kind")
    tgt = None
    if k == "BinaryOperator" and n.get("opcode") == "=":
        tgt = n["inner"][0]
    elif k == "CompoundAssignOperator":
        tgt = n["inner"][0]
    elif k == "UnaryOperator" and n.get("opcode") in ("++", "--"):
        tgt = n["inner"][0]
    if tgt is not None:
        while tgt.get("kind") == "ParenExpr":
            tgt = tgt["inner"][0]
        if tgt.get("kind") == "DeclRefExpr":
            out.add(tgt["referencedDecl"]["id"])
    if k == "VarDecl":
        out.add(n["id"])
    for c in n.get("inner", []):
        _assigned_locals(c, out)
