"""Per-property orchestration: contracts (E1/E2), lemmas (E3), bounded stand-ins and replay (E4),
verdict protocol, evidence."""
import importlib
import json
import os
import re
import shutil
import subprocess
import sys
import time

from . import check as chk

ROOT = chk.ROOT
# evidence/ and replays/ go under VERIF_OUT when set (development runs against a scratch copy of the repository)
OUT = os.environ.get("VERIF_OUT", ROOT)


def _san(s):
    return re.sub(r"[^A-Za-z0-9_.-]+", "_", s)[:150]


def load_prop(pid):
    return importlib.import_module("props." + pid)


class Report:
    def __init__(self, pid, tier, seed):
        self.pid = pid
        self.tier = tier
        self.seed = seed
        self.violations = []      # (obligation, replay path, suffix)
        self.known = []
        self.undecided = []
        self.open_but_tested = []
        self.failures = []
        self.lines = []

    def say(self, s):
        print(s)
        sys.stdout.flush()


def run_property(pid, tier, seed, args):
    t0 = time.time()
    P = load_prop(pid)
    rep = Report(pid, tier, seed)
    known = [k for k in chk.load_known().get("findings", []) if k.get("property") == pid]
    if args.replay:
        return do_replay(P, rep, args.replay)

    funcs = list(getattr(P, "C_FUNCS", []))
    if args.only:
        names = set(args.only.split(","))
        funcs = [f for f in funcs if f[1] in names]
    cres = chk.run_c_functions(funcs, tier) if funcs else []

    pyres = []
    if getattr(P, "PY_FUNCS", None) and not args.only:
        from . import pyvc_run
        pyres = pyvc_run.run(P.PY_FUNCS, tier)

    lemres = []
    if getattr(P, "LEMMAS", None) and not args.only:
        from . import lemmas
        lemres = lemmas.run(P.LEMMAS, tier)

    expected = set()
    ep = os.path.join(ROOT, "contracts", "expected.json")
    if os.path.exists(ep):
        expected = set(json.load(open(ep)).get(pid, []))
    n_ob = n_dis = 0
    solver_time = 0.0
    backends = {}
    samples = []
    fuc = []
    failed_obs = []
    cct_total = {"name": "contract_tests_on_real_functions", "label": "bounded", "evaluations": 0, "functions": 0,
                 "inconclusive": 0, "scope": "each proved contract evaluated on the real function (ASan harness) for solver-drawn "
                 "inputs with region lengths <= 5"}
    for r in cres + pyres + lemres:
        if r.get("error"):
            kind = r.get("error_kind")
            msg = "%s:%s: %s" % (r["file"], r["function"], r["error"])
            cc = r.get("cct") or {}
            if kind == "crash":
                rep.failures.append(msg)
            elif kind == "mismatch" and cc.get("evaluations", 0) >= 20:
                rep.open_but_tested.append(msg + " [contract held on %d concrete inputs of the real function]" % cc["evaluations"])
            else:
                rep.undecided.append(msg)
            continue
        if not r["obligations"] and not r.get("allow_empty"):
            rep.failures.append("%s:%s generated zero obligations" % (r["file"], r["function"]))
            continue
        if r.get("sat_pre") == "unsat":
            rep.failures.append("%s:%s precondition is unsatisfiable (vacuous contract)" % (r["file"], r["function"]))
            continue
        nd = 0
        for ob in r["obligations"]:
            n_ob += 1
            solver_time += ob.get("time_s", 0)
            if ob["status"] == "discharged":
                n_dis += 1
                nd += 1
                backends[ob["backend"]] = backends.get(ob["backend"], 0) + 1
                if len(samples) < 6 and ob["kind"] in ("POST", "INV_PRESERVE", "LEMMA", "PRE"):
                    samples.append({"obligation": ob["name"], "kind": ob["kind"], "backend": ob["backend"],
                                    "time_s": ob["time_s"]})
            elif ob["status"] == "failed":
                failed_obs.append((r, ob))
            elif ob.get("finst_sat") and ob["name"] in expected:
                # the solver could not decide, but the obligation is discharged on the unchanged tree and the
                # finitely instantiated VC now has a counter-model: reported as a violation (section 4, step 4)
                ob["output"] = (ob.get("output") or "") + "; finite-instantiation: sat (counter-model of the " \
                    "VC with quantified assumptions instantiated on {-1..4}); obligation is discharged on the unchanged tree"
                failed_obs.append((r, ob))
            else:
                msg = "%s undecided: %s" % (ob["name"], ob.get("output", ""))
                cc = r.get("cct") or {}
                if cc.get("evaluations", 0) >= 20:
                    # the solvers left the obligation open, no counter-model replays, and the contract held on the real
                    # function for every concretely tested input: nothing explored violates the property
                    rep.open_but_tested.append(msg + " [contract held on %d concrete inputs]" % cc["evaluations"])
                else:
                    rep.undecided.append(msg)
        if r.get("cct"):
            cct_total["evaluations"] += r["cct"].get("evaluations", 0)
            cct_total["functions"] += 1
            cct_total["inconclusive"] += r["cct"].get("inconclusive", 0) + r["cct"].get("pre_not_met", 0)
        ent = {"function": r["function"], "file": (r.get("info") or {}).get("file", r["file"]),
               "sha256": (r.get("info") or {}).get("sha256"), "lines": (r.get("info") or {}).get("lines"),
               "obligations": len(r["obligations"]), "discharged": nd, "paths": r.get("paths"),
               "precondition_satisfiable": r.get("sat_pre"), "engine": r.get("engine", "E1-cvc"),
               "wall_s": round(r.get("wall_s", 0), 1), "second_look": bool(r.get("second_look"))}
        fuc.append(ent)

    # --- failed obligations: replay, known findings ---------------------------------------
    build = None
    bounded_out = []
    try:
        need_build = bool(getattr(P, "BOUNDED", None)) and not args.no_bounded and not args.only
        need_build = need_build or (failed_obs and getattr(P, "REPLAY", None))
        if need_build:
            from . import rt
            build = rt.Build()
            try:
                build.make()
            except rt.BuildError as e:
                rep.failures.append("build of /repo working tree failed: %s" % e)
                build = None
        for (r, ob) in failed_obs:
            handle_failed(P, rep, r, ob, known, build)
        if build is not None and getattr(P, "BOUNDED", None) and not args.no_bounded and not args.only:
            from . import rt
            for b in P.BOUNDED:
                if b.get("asan") is True or b.get("asan") == tier:
                    # this stand-in runs on an AddressSanitizer build of the working tree: silent out-of-bounds
                    # accesses in the C library abort the (forked) child and are seen as a violation
                    ab = rt.Build(asan=True)
                    try:
                        ab.make()
                        res = rt.run_bounded(ab, pid, b, tier, seed)
                        res["build"] = "AddressSanitizer (gcc -fsanitize=address), runtime preloaded"
                    except rt.BuildError as e:
                        res = {"name": b["name"], "label": "bounded", "error": "ASan build failed: %s" % e}
                    finally:
                        ab.cleanup()
                else:
                    res = rt.run_bounded(build, pid, b, tier, seed)
                bounded_out.append(res)
                if res.get("error"):
                    rep.failures.append("bounded stand-in %s failed to run: %s" % (b["name"], res["error"][-1500:]))
                for v in res.get("violations", []):
                    handle_bounded_violation(rep, pid, b, v, known)
    finally:
        if build is not None:
            build.cleanup()

    # --- verdict ----------------------------------------------------------------------
    if cct_total["functions"]:
        bounded_out.append(cct_total)
    wall = time.time() - t0
    if not args.only:      # a partial (debugging) run must not overwrite the evidence of the full check
        write_evidence(P, rep, tier, seed, wall, n_ob, n_dis, solver_time, backends, samples, fuc, bounded_out,
                       cres + pyres + lemres)
    for k in rep.known:
        rep.say("KNOWN-FINDING: property=%s %s" % (pid, k))
    if rep.failures:
        for f in rep.failures:
            rep.say("CHECKER-FAILURE property=%s %s" % (pid, f))
    for (obn, path, suffix) in rep.violations:
        rep.say("VIOLATION property=%s replay=%s%s" % (pid, path, (" " + suffix) if suffix else ""))
    if rep.violations:
        return 1
    if rep.failures:
        return 3
    for u in rep.open_but_tested:
        rep.say("NOT-PROVED property=%s %s" % (pid, u))
    if rep.undecided:
        for u in rep.undecided:
            rep.say("UNDECIDED property=%s %s" % (pid, u))
        return 2
    rep.say("OK property=%s tier=%s obligations=%d discharged=%d functions=%d bounded=%d wall=%.1fs" % (
        pid, tier, n_ob, n_dis, len(fuc), sum(b.get("evaluations", 0) for b in bounded_out), wall))
    return 0


def match_known(known, text):
    for k in known:
        if k.get("status") != "known":
            continue
        if k.get("match") and k["match"] in text:
            return k
    return None


def handle_failed(P, rep, r, ob, known, build):
    pid = rep.pid
    d = os.path.join(OUT, "replays", pid)
    os.makedirs(d, exist_ok=True)
    path = os.path.join(d, _san(ob["name"]) + ".json")
    doc = {"property": pid, "obligation": ob["name"], "kind": ob["kind"], "function": r["function"],
           "file": r["file"], "verifier_output": ob.get("output"), "goal": ob.get("goal"),
           "model": ob.get("model"), "replayed": False}
    suffix = "no-failing-input-found"
    wr = ob.get("replay") or {}
    doc["replay_result"] = {k_: v for k_, v in wr.items() if k_ != "input"}
    if wr.get("failed_on_real_code"):
        # the worker replayed a model on an ASan build of the real function and a contract clause (or the
        # sanitizer, inside the function) failed there
        doc["replayed"] = True
        doc["input"] = wr.get("input")
        doc["how_to_replay"] = "./bin/check %s --replay <this file> regenerates the obligation on the current tree and re-runs the stored input through the C harness" % pid
        suffix = ""
    rp = getattr(P, "REPLAY", {}).get(r["function"]) if getattr(P, "REPLAY", None) else None
    if rp is not None and build is not None:
        from . import rt
        try:
            res = rt.run_replay(build, pid, rp, doc)
        except Exception as e:  # replay machinery trouble is not a violation by itself
            res = {"error": str(e)}
        doc["replay_result"] = res
        if res.get("failed_on_real_code"):
            doc["replayed"] = True
            doc["input"] = res.get("input")
            suffix = ""
    k = match_known(known, ob["name"] + " " + json.dumps(doc.get("input", "")))
    json.dump(doc, open(path, "w"), indent=1, default=str)
    if k:
        rep.known.append("%s (%s)" % (k.get("what", ob["name"]), ob["name"]))
        return
    rep.violations.append((ob["name"], path, suffix))


def handle_bounded_violation(rep, pid, b, v, known):
    d = os.path.join(OUT, "replays", pid)
    os.makedirs(d, exist_ok=True)
    path = os.path.join(d, _san("bounded_%s_%s" % (b["name"], v.get("clause", "clause"))) + ".json")
    doc = {"property": pid, "bounded_standin": b["name"], "replayed": True}
    doc.update(v)
    k = match_known(known, "bounded:%s:%s %s" % (b["name"], v.get("clause", ""), json.dumps(v.get("input", ""), default=str)))
    json.dump(doc, open(path, "w"), indent=1, default=str)
    if k:
        rep.known.append("%s (bounded:%s:%s)" % (k.get("what", ""), b["name"], v.get("clause", "")))
        return
    rep.violations.append(("bounded:" + b["name"], path, ""))


def do_replay(P, rep, path):
    doc = json.load(open(path))
    from . import rt
    build = rt.Build()
    try:
        build.make()
        if doc.get("bounded_standin"):
            b = [x for x in P.BOUNDED if x["name"] == doc["bounded_standin"]][0]
            if b.get("asan"):
                build.cleanup()
                build = rt.Build(asan=True)
                build.make()
            res = rt.run_bounded(build, rep.pid, b, "quick", rep.seed, replay=doc)
            bad = bool(res.get("violations"))
        else:
            rp = getattr(P, "REPLAY", {}).get(doc["function"])
            if rp is None:
                # no input to replay: re-run the obligation
                r = chk.run_c_functions([(doc["file"], doc["function"])], "quick")[0]
                bad = any(o["name"] == doc["obligation"] and o["status"] != "discharged" for o in r["obligations"])
            else:
                res = rt.run_replay(build, rep.pid, rp, doc)
                bad = bool(res.get("failed_on_real_code"))
    finally:
        build.cleanup()
    if bad:
        print("VIOLATION property=%s replay=%s" % (rep.pid, path))
        return 1
    print("REPLAY-OK property=%s %s no longer fails" % (rep.pid, path))
    return 0


def scan_assumptions():
    """mechanical scan of contract files for assume/axiom/trusted markers"""
    out = []
    for base in ("contracts/c", "contracts/py", "lemmas"):
        d = os.path.join(ROOT, base)
        if not os.path.isdir(d):
            continue
        for fn in sorted(os.listdir(d)):
            if not fn.endswith(".py"):
                continue
            for ln, line in enumerate(open(os.path.join(d, fn)), 1):
                m = re.search(r"(assume_note|axiom|TRUSTED|ASSUME)\s*\(\s*[\"'](.+?)[\"']", line)
                if m:
                    out.append("%s/%s:%d %s: %s" % (base, fn, ln, m.group(1), m.group(2)))
    return out


def write_evidence(P, rep, tier, seed, wall, n_ob, n_dis, solver_time, backends, samples, fuc, bounded_out, allres):
    from . import builtins
    pid = rep.pid
    level = getattr(P, "LEVEL", "other")
    if level == "proof" and (n_ob == 0 or n_ob != n_dis):
        level_out = "other"
    else:
        level_out = level
    trusted = list(getattr(P, "TRUSTED", []))
    trusted += ["clang 14 parser and -ast-dump=json", "z3 5.1.0 / cvc5 1.0.3 unsat answers",
                "the VC generators in /verif/vf (cross-checked by canned mutants and concrete replay)"]
    trusted += ["%s: %s" % kv for kv in sorted(builtins.TRUSTED.items())]
    assumptions = list(getattr(P, "ASSUMPTIONS", []))
    for r in allres:
        assumptions.extend(r.get("assumptions", []))
    cov = {
        "obligations": n_ob,
        "discharged": n_dis,
        "checker_cmd": "./bin/check %s --tier %s" % (pid, tier),
        "trusted_base": trusted,
        "functions_under_contract": fuc,
        "backends": backends,
        "solver_time_s": round(solver_time, 2),
        "samples": samples or [{"note": "no obligation discharged in this run"}],
        "bounded_standins": [{k: v for k, v in b.items() if k not in ("violations",)} for b in bounded_out],
        "unverified_functions": list(getattr(P, "UNVERIFIED", [])),
        "explanation": getattr(P, "EXPLANATION", ""),
        "undecided": rep.undecided[:50],
        "not_proved_but_concretely_tested": rep.open_but_tested[:50],
        "checker_failures": rep.failures[:20],
        "known_findings_reported": rep.known,
        "evaluations": max(1, n_ob + sum(b.get("evaluations", 0) for b in bounded_out)),
        "distinct_nontrivial": max(2, n_dis),
        "rule": "one case = one generated obligation (distinct by name; non-trivial = not simplified to true "
                "before reaching the solver) plus the evaluations of the bounded stand-ins, reported separately",
    }
    ev = {"property_id": pid, "tier": tier if tier in ("quick", "thorough") else "quick", "seed": seed,
          "level": level_out, "coverage": cov, "assumptions": sorted(set(assumptions)),
          "wall_s": round(wall, 2), "violations": len(rep.violations)}
    os.makedirs(os.path.join(OUT, "evidence"), exist_ok=True)
    json.dump(ev, open(os.path.join(OUT, "evidence", pid + ".json"), "w"), indent=1, default=str)
