"""Finite instantiation: when the solver answers `unknown` on a quantified VC, the universally
quantified *assumptions* are instantiated on a small set of ground integers and every symbolic size is
capped, which yields a decidable query.  A `sat` answer is only a candidate (assumptions were weakened):
it counts for nothing until creplay confirms it on the real code."""
import z3

from .cvc import has_quantifier


def _instantiate(f, dom):
    """expand top-level (possibly nested under And/Implies-rhs) universal quantifiers over dom"""
    if z3.is_quantifier(f) and f.is_forall():
        n = f.num_vars()
        body = f.body()
        outs = []
        import itertools
        sorts = [f.var_sort(i) for i in range(n)]
        if not all(s == z3.IntSort() for s in sorts):
            return z3.BoolVal(True)
        if len(dom) ** n > 400:
            dom = dom[:max(2, int(400 ** (1.0 / n)))]
        for combo in itertools.product(dom, repeat=n):
            # de Bruijn: var 0 is the LAST bound variable
            subs = [z3.IntVal(v) for v in reversed(combo)]
            outs.append(_instantiate(z3.substitute_vars(body, *subs), dom))
        return z3.And(*outs) if outs else z3.BoolVal(True)
    if z3.is_and(f):
        return z3.And(*[_instantiate(c, dom) for c in f.children()])
    if z3.is_implies(f):
        a, b = f.children()
        if has_quantifier(a):
            return z3.BoolVal(True)
        return z3.Implies(a, _instantiate(b, dom))
    if z3.is_or(f):
        cs = f.children()
        if any(has_quantifier(c) and not (z3.is_quantifier(c) and c.is_forall()) for c in cs):
            # keep only if each quantified disjunct is a plain forall
            pass
        return z3.Or(*[_instantiate(c, dom) if has_quantifier(c) else c for c in cs])
    if has_quantifier(f):
        return z3.BoolVal(True)     # drop what we cannot expand (weakening)
    return f


def candidates(ex, ob, bound=3, tries=3):
    dom = list(range(-1, bound + 2))
    out = []
    for b in (2, bound, 15, 47, None):
        if out:
            break
        s = z3.Solver()
        s.set("timeout", 15000)
        for a in ob.pc:
            s.add(_instantiate(a, dom) if has_quantifier(a) else a)
        s.add(z3.Not(ob.goal))
        # cap every symbolic size
        seen = set()
        for a in ex.len_facts:
            for sym in _consts(a):
                if sym.decl().name().startswith("len(") and sym.get_id() not in seen:
                    seen.add(sym.get_id())
                    if b is not None:
                        s.add(sym <= b + 1)
        r = s.check()
        if r == z3.sat:
            base_model = s.model()
            # prefer a state of the FIRST loop iteration (havoc'd integer locals at 0): such a state is the
            # entry state itself, so the model is an input of the function rather than a mid-loop snapshot
            import re
            hav = []
            for a in ob.pc + [ob.goal]:
                for sym in _consts(a):
                    if sym.sort() == z3.IntSort() and re.match(r"^[A-Za-z_]\w*!\d+$", sym.decl().name()) \
                            and not sym.decl().name().startswith(("ret_", "io!", "memcmp", "i!")):
                        hav.append(sym)
            seen_h = set()
            changed = False
            for sym in hav:
                if sym.get_id() in seen_h:
                    continue
                seen_h.add(sym.get_id())
                s.push()
                s.add(sym == 0)
                if s.check() == z3.sat:
                    changed = True
                else:
                    s.pop()
            if changed and s.check() == z3.sat:
                out.append(s.model())
            out.append(base_model)
            if len(out) >= tries:
                break
    return out


def _consts(t):
    out = []
    stack = [t]
    seen = set()
    while stack:
        x = stack.pop()
        if x.get_id() in seen:
            continue
        seen.add(x.get_id())
        if z3.is_const(x) and x.decl().kind() == z3.Z3_OP_UNINTERPRETED:
            out.append(x)
        stack.extend(x.children())
    return out
