"""E3: property-level lemmas proved from contract/spec formulas only (no code)."""
import importlib
import time
import traceback

import z3


class _Ob:
    def __init__(self, name, pc, goal):
        self.name, self.pc, self.goal = name, pc, goal
        self.kind = "LEMMA"
        self.model = None
        self.output = ""
        self.status = None
        self.backend = None
        self.time = 0.0


def run(specs, tier):
    from . import solve
    out = []
    for spec in specs:
        modname, fn = spec.split(":")
        r = {"file": "lemmas/" + modname.split(".")[-1] + ".py", "function": fn, "obligations": [], "error": None,
             "error_kind": None, "info": None, "assumptions": [], "engine": "E3-lemma", "sat_pre": "n/a"}
        t0 = time.time()
        try:
            mod = importlib.import_module(modname)
            for (name, assumptions, goal) in getattr(mod, fn)():
                # vacuity: the hypotheses of a lemma must be satisfiable
                sv = z3.Solver()
                sv.set("timeout", 5000)
                sv.add(*assumptions)
                if sv.check() == z3.unsat:
                    r["obligations"].append({"name": "%s:%s/%s" % (r["file"], fn, name), "kind": "LEMMA", "status": "unknown",
                                             "backend": None, "time_s": 0, "output": "hypotheses unsatisfiable (vacuous lemma)"})
                    continue
                ob = _Ob("%s:%s/%s" % (r["file"], fn, name), list(assumptions), goal)
                solve.discharge(ob, 20 if tier == "quick" else 90, use_cvc5=False)
                if ob.status == "unknown":
                    solve.discharge2(ob, 30 if tier == "quick" else 120)
                r["obligations"].append({"name": ob.name, "kind": "LEMMA", "status": ob.status, "backend": ob.backend,
                                         "time_s": round(ob.time, 3), "output": ob.output,
                                         "goal": str(goal)[:1500]})
        except Exception as e:
            r["error"] = "checker failure: %s\n%s" % (e, traceback.format_exc())
            r["error_kind"] = "crash"
        r["wall_s"] = time.time() - t0
        out.append(r)
    return out
