"""Contract registry: sidecar contract functions keyed by (file, function)."""
import importlib
import os
import pkgutil
import re

from . import cfront


class Registry:
    def __init__(self):
        self.c = {}
        self.by_name = {}
        self.meta = {}
        self.call_c = {}        # contracts used at call sites only (assumed, weaker precondition than the proved one)

    def add(self, fname, func, params, fn, **meta):
        key = (fname, func)
        if meta.get("call_only"):
            self.call_c[key] = (fn, list(params))
            self.by_name.setdefault(func, key)
            return
        self.c[key] = (fn, list(params))
        self.by_name[func] = key
        self.meta[key] = meta

    def find(self, name):
        return self.by_name.get(name)

    def get(self, key):
        return self.c[key]

    def get_call(self, key):
        """the contract a caller sees: the call-only (assumed) one when there is one, else the verified one"""
        return self.call_c.get(key) or self.c[key]


REG = Registry()


def contract(fname, func, params, **meta):
    def deco(fn):
        REG.add(fname, func, params, fn, **meta)
        return fn
    return deco


def load_all():
    import contracts.c as pkg
    for m in pkgutil.iter_modules(pkg.__path__):
        importlib.import_module("contracts.c." + m.name)
    return REG


class Errs:
    """error codes and flag constants read from the working tree's headers on every run"""

    def __init__(self):
        self._v = {}
        for rel in ("tskit/core.h", "tskit/tables.h", "tskit/trees.h", "tskit/genotypes.h", "tskit/stats.h",
                    "tskit/convert.h", "tskit/haplotype_matching.h", "tskit/trees.c", "tskit/tables.c",
                    "tskit/genotypes.c",
                    "subprojects/kastore/kastore.h"):
            p = os.path.join(cfront.CDIR, rel)
            try:
                txt = open(p).read()
            except OSError:
                continue
            for m in re.finditer(r"^#define\s+([A-Z][A-Z0-9_]+)\s+(.+?)\s*$", txt, re.M):
                name, val = m.group(1), m.group(2)
                val = re.sub(r"/\*.*?\*/", "", val).strip()
                v = self._eval(val)
                if v is not None and name not in self._v:
                    self._v[name] = v

    def _eval(self, s):
        s = s.strip()
        while s.startswith("(") and s.endswith(")") and self._balanced(s[1:-1]):
            s = s[1:-1].strip()
        m = re.match(r"^-?\d+$", s)
        if m:
            return int(s)
        m = re.match(r"^(0x[0-9a-fA-F]+|\d+)[uUlL]*$", s)
        if m:
            return int(m.group(1), 0)
        m = re.match(r"^\(?1[uUlL]*\s*<<\s*(\d+)\)?$", s)
        if m:
            return 1 << int(m.group(1))
        m = re.match(r"^\(\s*tsk_id_t\s*\)\s*(-?\d+)$", s)
        if m:
            return int(m.group(1))
        if re.match(r"^[A-Z][A-Z0-9_]+$", s) and s in self._v:
            return self._v[s]
        m = re.match(r"^([A-Z][A-Z0-9_]+)\s*\|\s*(.+)$", s)
        if m and m.group(1) in self._v:
            r = self._eval(m.group(2))
            if r is not None:
                return self._v[m.group(1)] | r
        return None

    @staticmethod
    def _balanced(s):
        d = 0
        for ch in s:
            if ch == "(":
                d += 1
            elif ch == ")":
                d -= 1
                if d < 0:
                    return False
        return d == 0

    def __getattr__(self, name):
        if name.startswith("_"):
            raise AttributeError(name)
        try:
            return self._v[name]
        except KeyError:
            raise AttributeError("constant %s not found in headers" % name)
