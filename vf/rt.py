"""E4: builds of /repo's working tree (never the installed wheel), bounded stand-ins and replay."""
import json
import os
import shutil
import subprocess
import sys
import tempfile
import time

from . import cfront

ROOT = os.path.dirname(os.path.dirname(os.path.abspath(__file__)))
VENV_PY = "/venv/bin/python"


class BuildError(Exception):
    pass


class Build:
    """copy of /repo/python + /repo/c in a fresh temp dir with _tskit compiled from it"""

    def __init__(self, asan=False):
        self.dir = None
        self.build_s = 0.0
        self.asan = asan        # compile the extension with AddressSanitizer (gcc) and preload its runtime

    def make(self, ext=True):
        t0 = time.time()
        self.dir = tempfile.mkdtemp(prefix="vf_build_")
        repo = cfront.REPO
        shutil.copytree(os.path.join(repo, "c"), os.path.join(self.dir, "c"), symlinks=True,
                        ignore=shutil.ignore_patterns("build*", "*.o"))
        shutil.copytree(os.path.join(repo, "python"), os.path.join(self.dir, "python"), symlinks=True,
                        ignore=shutil.ignore_patterns("build", "*.so", "__pycache__", "tests", "benchmark",
                                                      ".pytest_cache"))
        if ext:
            env = dict(os.environ)
            env["TSKIT_VERIF"] = "1"
            if self.asan:
                env["CFLAGS"] = "-fsanitize=address -fno-omit-frame-pointer -g -O1"
                env["LDFLAGS"] = "-fsanitize=address"
            p = subprocess.run([VENV_PY, "setup.py", "-q", "build_ext", "--inplace", "-j", "8"],
                               cwd=os.path.join(self.dir, "python"), capture_output=True, text=True, env=env)
            if p.returncode != 0:
                raise BuildError(p.stderr[-3000:])
        self.build_s = time.time() - t0
        return self

    @property
    def pypath(self):
        return os.path.join(self.dir, "python")

    def env(self):
        e = dict(os.environ)
        e["PYTHONPATH"] = self.pypath + os.pathsep + ROOT
        e["VF_BUILD_DIR"] = self.dir
        e["PYTHONDONTWRITEBYTECODE"] = "1"
        if self.asan:
            lib = subprocess.run(["gcc", "-print-file-name=libasan.so"], capture_output=True, text=True).stdout.strip()
            e["LD_PRELOAD"] = lib
            e["ASAN_OPTIONS"] = "detect_leaks=0:abort_on_error=1:allocator_may_return_null=1"
        return e

    def cleanup(self):
        if self.dir and os.path.isdir(self.dir):
            shutil.rmtree(self.dir, ignore_errors=True)
        self.dir = None


def _run_json(build, module, argv, timeout):
    cmd = [VENV_PY, "-m", module] + argv
    try:
        p = subprocess.run(cmd, cwd=build.pypath, env=build.env(), capture_output=True, text=True, timeout=timeout)
    except subprocess.TimeoutExpired:
        return {"error": "timeout after %ss" % timeout}
    last = None
    for line in p.stdout.splitlines():
        if line.startswith("RESULT "):
            last = line[7:]
    if last is None and p.returncode < 0:
        # the stand-in (pure Python) was killed by a signal: native code crashed on an input the stand-in generated
        import signal as _sg
        try:
            nm = _sg.Signals(-p.returncode).name
        except ValueError:
            nm = str(-p.returncode)
        k = (p.stderr or "").find("ERROR: AddressSanitizer")
        return {"evaluations": 0, "distinct_nontrivial": 0, "scope": "stopped by signal %s" % nm, "samples": [],
                "violations": [{"clause": "the library does not crash on the inputs the stand-in generates",
                                "input": {"standin": module, "argv": argv, "last_output": p.stdout[-500:]},
                                "observed": "stand-in process killed by %s; %s" % (nm, (p.stderr or "")[k if k >= 0 else -1500:][:4000]),
                                "expected": "a RESULT line"}]}
    if last is None:
        if getattr(build, "asan", False) and "AddressSanitizer" in (p.stderr or ""):
            # the stand-in itself was stopped by AddressSanitizer: a memory error inside the C library on an input the
            # stand-in generated (reproduce with the same seed); reported as a violation carrying the report
            k = p.stderr.find("ERROR: AddressSanitizer")
            return {"evaluations": 0, "distinct_nontrivial": 0, "scope": "stopped by AddressSanitizer", "samples": [],
                    "violations": [{"clause": "no memory error under AddressSanitizer",
                                    "input": {"standin": module, "argv": argv, "last_output": p.stdout[-500:]},
                                    "observed": p.stderr[k:k + 4000], "expected": "no report"}]}
        return {"error": "no RESULT line (exit %s): %s %s" % (p.returncode, p.stdout[-1500:], p.stderr[-3000:])}
    try:
        return json.loads(last)
    except ValueError as e:
        return {"error": "bad RESULT json: %s" % e}


def run_bounded(build, pid, b, tier, seed, replay=None):
    argv = ["--tier", tier, "--seed", str(seed)]
    tmp = None
    if replay is not None:
        tmp = tempfile.NamedTemporaryFile("w", suffix=".json", delete=False)
        json.dump(replay, tmp, default=str)
        tmp.close()
        argv += ["--replay", tmp.name]
    t0 = time.time()
    try:
        res = _run_json(build, b["module"], argv, b.get("timeout", 600 if tier == "quick" else 3600))
    finally:
        if tmp is not None:
            os.unlink(tmp.name)
    res["name"] = b["name"]
    res["label"] = "bounded"
    res["wall_s"] = round(time.time() - t0, 2)
    return res


def run_replay(build, pid, rp, doc):
    tmp = tempfile.NamedTemporaryFile("w", suffix=".json", delete=False)
    json.dump(doc, tmp, default=str)
    tmp.close()
    try:
        return _run_json(build, rp["module"], ["--replay-model", tmp.name], rp.get("timeout", 300))
    finally:
        os.unlink(tmp.name)
