"""Obligation discharge: z3 in-process, cvc5 (CLI) on z3's unknowns."""
import os
import subprocess
import tempfile
import time

import z3

Z3_VERSION = "z3-" + z3.get_version_string()


def _cvc5(smt2, timeout_s):
    with tempfile.NamedTemporaryFile("w", suffix=".smt2", delete=False) as f:
        smt2 = smt2.replace("ubv_to_int", "bv2nat")
        f.write("(set-logic ALL)\n" + smt2 + "\n(check-sat)\n")
        path = f.name
    try:
        p = subprocess.run(["/usr/bin/cvc5", "--tlimit=%d" % int(timeout_s * 1000), "--arrays-exp", path],
                           capture_output=True, text=True, timeout=timeout_s + 10)
        out = p.stdout.strip().splitlines()
        return out[0] if out else "unknown"
    except Exception:
        return "unknown"
    finally:
        os.unlink(path)


def discharge(ob, timeout_s=30, use_cvc5=True):
    from .cvc import has_quantifier
    t0 = time.time()
    # stage 0 (relevance filter): a quantifier-free goal is first tried against the quantifier-free
    # assumptions only -- fewer assumptions is sound, and it keeps MBQI out of simple arithmetic facts
    if not has_quantifier(ob.goal):
        s0 = z3.Solver()
        s0.set("timeout", 3000)
        nq = 0
        for a in ob.pc:
            if has_quantifier(a):
                nq += 1
            else:
                s0.add(a)
        if nq:
            s0.add(z3.Not(ob.goal))
            if s0.check() == z3.unsat:
                ob.time = time.time() - t0
                ob.backend = Z3_VERSION
                ob.status = "discharged"
                return ob
    s = z3.Solver()
    s.set("timeout", int(timeout_s * 1000))
    for a in ob.pc:
        s.add(a)
    s.add(z3.Not(ob.goal))
    r = s.check()
    ob.time = time.time() - t0
    ob.backend = Z3_VERSION
    if r == z3.unsat:
        ob.status = "discharged"
        return ob
    if r == z3.sat:
        ob.status = "failed"
        try:
            ob.model = s.model()
        except z3.Z3Exception:
            ob.model = None
        ob.output = "z3: sat"
        return ob
    ob.output = "z3: unknown (%s)" % s.reason_unknown()
    if use_cvc5:
        t1 = time.time()
        try:
            txt = s.to_smt2()
            txt = txt.replace("(check-sat)", "")
            r2 = _cvc5(txt, timeout_s)
        except Exception as e:  # pragma: no cover
            r2 = "unknown"
        ob.time += time.time() - t1
        if r2 == "unsat":
            ob.status = "discharged"
            ob.backend = "cvc5-1.0.3"
            return ob
        ob.output += "; cvc5: %s" % r2
        if r2 == "sat":
            ob.status = "failed"
            return ob
    ob.status = "unknown"
    return ob


def discharge2(ob, timeout_s):
    """second attempt on an obligation z3 left open: cvc5, then z3 with the full budget"""
    t0 = time.time()
    s = z3.Solver()
    for a in ob.pc:
        s.add(a)
    s.add(z3.Not(ob.goal))
    try:
        txt = s.to_smt2().replace("(check-sat)", "")
        r2 = _cvc5(txt, min(timeout_s, 15))
    except Exception:
        r2 = "unknown"
    if r2 == "unsat":
        ob.status = "discharged"
        ob.backend = "cvc5-1.0.3"
        ob.time += time.time() - t0
        return ob
    ob.output += "; cvc5: %s" % r2
    s.set("timeout", int(timeout_s * 1000))
    r = s.check()
    ob.time += time.time() - t0
    if r == z3.unsat:
        ob.status = "discharged"
        ob.backend = Z3_VERSION
    elif r == z3.sat:
        ob.status = "failed"
        try:
            ob.model = s.model()
        except z3.Z3Exception:
            pass
        ob.output += "; z3(long): sat"
    return ob
