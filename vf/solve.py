"""Obligation discharge: z3 in-process, cvc5 (CLI) on z3's unknowns."""
import os
import subprocess
import tempfile
import time

import z3

Z3_VERSION = "z3-" + z3.get_version_string()


def _cvc5(smt2, timeout_s):
    with tempfile.NamedTemporaryFile("w", suffix=".smt2", delete=False) as f:
        smt2 = smt2.replace("ubv_to_int", "bv2nat").replace("int_to_bv", "int2bv")
        f.write("(set-logic ALL)\n" + smt2 + "\n(check-sat)\n")
        path = f.name
    try:
        p = subprocess.run(["/usr/bin/cvc5", "--tlimit=%d" % int(timeout_s * 1000), "--arrays-exp", path],
                           capture_output=True, text=True, timeout=timeout_s + 10)
        out = p.stdout.strip().splitlines()
        return out[0] if out else "unknown"
    except Exception:
        return "unknown"
    finally:
        os.unlink(path)


PORTFOLIO = [({}, 0.5), ({"smt.mbqi": False}, 0.6), ({"smt.random_seed": 7}, 0.5), ({"smt.random_seed": 11}, 0.5)]

_sym_cache = {}


def _symbols(t):
    k = t.get_id()
    r = _sym_cache.get(k)
    if r is not None:
        return r
    out = set()
    seen = set()
    stack = [t]
    while stack:
        x = stack.pop()
        xi = x.get_id()
        if xi in seen:
            continue
        seen.add(xi)
        if z3.is_quantifier(x):
            stack.append(x.body())
            continue
        if z3.is_app(x):
            d = x.decl()
            if d.kind() == z3.Z3_OP_UNINTERPRETED:
                out.add(d.name())
            stack.extend(x.children())
    _sym_cache[k] = out
    return out


def _relevant(ob):
    """assumptions reachable from the goal through shared uninterpreted symbols (quantifier-free assumptions
    propagate reachability; quantified ones are included when they touch the reached set but do not extend it)"""
    from .cvc import has_quantifier
    try:
        reach = set(_symbols(ob.goal))
        items = [(a, _symbols(a), has_quantifier(a)) for a in ob.pc]
        chosen = [False] * len(items)
        changed = True
        rounds = 0
        while changed and rounds < 4:
            changed = False
            rounds += 1
            for q, (a, sy, hq) in enumerate(items):
                if chosen[q] or not (sy & reach):
                    continue
                chosen[q] = True
                if not hq and not (sy <= reach):
                    reach |= sy
                    changed = True
        return [a for q, (a, sy, hq) in enumerate(items) if chosen[q] or not sy]
    except Exception:
        return None


def discharge(ob, timeout_s=30, use_cvc5=True):
    from .cvc import has_quantifier
    t0 = time.time()
    # stage 0 (relevance filter): a quantifier-free goal is first tried against the quantifier-free
    # assumptions only -- fewer assumptions is sound, and it keeps MBQI out of simple arithmetic facts
    if not has_quantifier(ob.goal):
        s0 = z3.Solver()
        s0.set("timeout", 3000)
        nq = 0
        for a in ob.pc:
            if has_quantifier(a):
                nq += 1
            else:
                s0.add(a)
        if nq:
            s0.add(z3.Not(ob.goal))
            if s0.check() == z3.unsat:
                ob.time = time.time() - t0
                ob.backend = Z3_VERSION
                ob.status = "discharged"
                return ob
    # stage 1: all assumptions, default configuration, short budget
    sq = z3.Solver()
    sq.set("timeout", 2500)
    for a in ob.pc:
        sq.add(a)
    sq.add(z3.Not(ob.goal))
    rq = sq.check()
    if rq == z3.unsat:
        ob.time = time.time() - t0
        ob.backend = Z3_VERSION
        ob.status = "discharged"
        return ob
    # stage 1b (symbol relevance): only the assumptions connected to the goal through shared symbols
    rel = _relevant(ob) if rq == z3.unknown else None
    if rel is not None and len(rel) < len(ob.pc):
        s1 = z3.Solver()
        s1.set("timeout", 4000)
        for a in rel:
            s1.add(a)
        s1.add(z3.Not(ob.goal))
        if s1.check() == z3.unsat:
            ob.time = time.time() - t0
            ob.backend = Z3_VERSION
            ob.status = "discharged"
            return ob
    # stage 2 (portfolio): quantifier instantiation is unstable on identical input, so several
    # configurations get a short budget each; `unsat` from any of them is a proof
    r = z3.unknown
    s = None
    budget = max(1.0, timeout_s)
    for cfg, share in PORTFOLIO:
        s = z3.Solver()
        s.set("timeout", int(budget * share * 1000))
        for k_, v_ in cfg.items():
            s.set(k_, v_)
        for a in ob.pc:
            s.add(a)
        s.add(z3.Not(ob.goal))
        r = s.check()
        if r == z3.unsat or (r == z3.sat and not cfg):
            break
        if r == z3.sat:
            r = z3.unknown     # only the default configuration's models are used
    ob.time = time.time() - t0
    ob.backend = Z3_VERSION
    if r == z3.unsat:
        ob.status = "discharged"
        return ob
    if r == z3.sat:
        ob.status = "failed"
        try:
            ob.model = s.model()
        except z3.Z3Exception:
            ob.model = None
        ob.output = "z3: sat"
        return ob
    ob.output = "z3: unknown (%s)" % s.reason_unknown()
    if use_cvc5:
        t1 = time.time()
        try:
            txt = s.to_smt2()
            txt = txt.replace("(check-sat)", "")
            r2 = _cvc5(txt, timeout_s)
        except Exception as e:  # pragma: no cover
            r2 = "unknown"
        ob.time += time.time() - t1
        if r2 == "unsat":
            ob.status = "discharged"
            ob.backend = "cvc5-1.0.3"
            return ob
        ob.output += "; cvc5: %s" % r2
        if r2 == "sat":
            ob.status = "failed"
            return ob
    ob.status = "unknown"
    return ob


def _conjuncts(g, depth=0):
    if z3.is_and(g) and depth < 3:
        out = []
        for ch in g.children():
            out.extend(_conjuncts(ch, depth + 1))
        return out
    return [g]


def discharge2(ob, timeout_s):
    """second attempt on an obligation z3 left open: conjunct by conjunct, cvc5, then the full budget"""
    t0 = time.time()
    parts = _conjuncts(ob.goal)
    if len(parts) > 1:
        # one query per conjunct: smaller, and the undecided clause is named in the output
        class _O:
            pass
        bad = []
        for q, g in enumerate(parts):
            o = _O()
            o.pc, o.goal, o.model, o.output, o.status, o.backend, o.time = ob.pc, g, None, "", None, None, 0.0
            discharge(o, min(timeout_s, 8), use_cvc5=False)
            if o.status != "discharged":
                bad.append((q, o))
        ob.time += time.time() - t0
        if not bad:
            ob.status = "discharged"
            ob.backend = Z3_VERSION
            ob.output += "; discharged conjunct by conjunct (%d)" % len(parts)
            return ob
        ob.output += "; open conjuncts: %s" % ", ".join("#%d %s" % (q, str(o.goal)[:80].replace("\n", " ")) for q, o in bad[:3])
        if len(bad) == 1 and bad[0][1].status == "failed":
            ob.status = "failed"
            ob.model = bad[0][1].model
            return ob
        # continue below on the first open conjunct only (the others are proved)
        ob_goal_saved = ob.goal
        ob.goal = bad[0][1].goal if len(bad) == 1 else ob.goal
    t0 = time.time()
    s = z3.Solver()
    for a in ob.pc:
        s.add(a)
    s.add(z3.Not(ob.goal))
    try:
        txt = s.to_smt2().replace("(check-sat)", "")
        r2 = _cvc5(txt, min(timeout_s, 15))
    except Exception:
        r2 = "unknown"
    if r2 == "unsat":
        ob.status = "discharged"
        ob.backend = "cvc5-1.0.3"
        ob.time += time.time() - t0
        return ob
    ob.output += "; cvc5: %s" % r2
    r = z3.unknown
    for cfg, share in PORTFOLIO:
        s = z3.Solver()
        s.set("timeout", int(timeout_s * share * 1000))
        for k_, v_ in cfg.items():
            s.set(k_, v_)
        for a in ob.pc:
            s.add(a)
        s.add(z3.Not(ob.goal))
        r = s.check()
        if r == z3.unsat or (r == z3.sat and not cfg):
            break
        if r == z3.sat:
            r = z3.unknown
    ob.time += time.time() - t0
    if r == z3.unsat:
        ob.status = "discharged"
        ob.backend = Z3_VERSION
    elif r == z3.sat:
        ob.status = "failed"
        try:
            ob.model = s.model()
        except z3.Z3Exception:
            pass
        ob.output += "; z3(long): sat"
    return ob
